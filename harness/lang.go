package main

// Pattern-derived inputs (families CORPUS and LIM). Short inputs over a tiny alphabet never reach a
// match of a long pattern (`(?:ab){5}c`, a 9-letter literal, an alternation of 17 words), so for
// text patterns the input space is built from the pattern itself, deterministically and completely:
//
//   W  = witnesses: strings of the pattern's language read off its parse tree (every alternation
//        branch; every loop at its minimum, one more and two more iterations; every set by its
//        first members; one child of a concatenation varied at a time), at most maxWitness
//   I  = for every w in W (in this order): w itself; every prefix and every suffix of w; w with one
//        rune of padding on either / both sides, w·w; every single-rune deletion of w; every
//        single-rune substitution of w by a letter of the small alphabet (the pattern's first
//        letters and one foreign rune)
//
// I is enumerated completely (up to the stated cap, which is reported). The parse tree comes from
// the parser of the code under test; it only proposes inputs, the oracle never sees it.

import (
	"fmt"
	"sort"
	"strings"

	"github.com/dlclark/regexp2/v2/syntax"
)

const (
	langMaxWitness = 12
	langMaxLen     = 100
	langMaxInputs  = 400
)

func syntaxOptions(o optSet) syntax.RegexOptions {
	var out syntax.RegexOptions
	for i := 0; i < len(o); i++ {
		switch o[i] {
		case 'i':
			out |= syntax.IgnoreCase
		case 'm':
			out |= syntax.Multiline
		case 's':
			out |= syntax.Singleline
		case 'n':
			out |= syntax.ExplicitCapture
		case 'x':
			out |= syntax.IgnorePatternWhitespace
		case 'R':
			out |= syntax.RightToLeft
		case 'E':
			out |= syntax.ECMAScript
		case '2':
			out |= syntax.RE2
		case 'U':
			out |= syntax.Unicode
		}
	}
	return out
}

var langProbe = []rune{'a', 'b', 'c', 'x', 'A', 'Z', '0', '1', '9', ' ', '\n', '_', '-', '.', ',', ':', '/', '@', 'é', 'Σ', 0x4e2d, 0x1F600}

// setMembers returns up to k members of a set, preferring runes that occur in the pattern.
func setMembers(cs *syntax.CharSet, pref []rune, k int) []rune {
	var out []rune
	seen := map[rune]bool{}
	try := func(r rune) {
		if len(out) < k && !seen[r] && cs.CharIn(r) {
			seen[r] = true
			out = append(out, r)
		}
	}
	for _, r := range pref {
		try(r)
	}
	for _, r := range langProbe {
		try(r)
	}
	for r := rune(0x21); r < 0x250 && len(out) < k; r++ {
		try(r)
	}
	return out
}

func notOne(ch rune, pref []rune) rune {
	for _, r := range pref {
		if r != ch && r != '\n' {
			return r
		}
	}
	for _, r := range langProbe {
		if r != ch && r != '\n' {
			return r
		}
	}
	return 'q'
}

type langGen struct {
	pref []rune
}

func capW(ws [][]rune) [][]rune {
	var out [][]rune
	seen := map[string]bool{}
	for _, w := range ws {
		if len(w) > langMaxLen {
			continue
		}
		if k := string(w); !seen[k] {
			seen[k] = true
			out = append(out, w)
			if len(out) == langMaxWitness {
				break
			}
		}
	}
	return out
}

func repeatW(w []rune, k int) []rune {
	var out []rune
	for i := 0; i < k && len(out) <= langMaxLen; i++ {
		out = append(out, w...)
	}
	return out
}

func loopCounts(m, n int) []int {
	// a loop with a large minimum still gets its minimal witness (langMaxLen bounds the total length)
	var ks []int
	for _, k := range []int{m, m + 1, m + 2} {
		if k <= n && (k <= 12 || k == m) && k <= langMaxLen {
			ks = append(ks, k)
		}
	}
	return ks
}

func (g *langGen) gen(n *syntax.RegexNode, depth int) [][]rune {
	if n == nil || depth > 40 {
		return [][]rune{{}}
	}
	switch n.T {
	case syntax.NtOne:
		return [][]rune{{n.Ch}}
	case syntax.NtNotone:
		return [][]rune{{notOne(n.Ch, g.pref)}}
	case syntax.NtSet:
		var out [][]rune
		for _, r := range setMembers(n.Set, g.pref, 2) {
			out = append(out, []rune{r})
		}
		return out
	case syntax.NtMulti:
		s := append([]rune{}, n.Str...)
		return [][]rune{s}
	case syntax.NtOneloop, syntax.NtOnelazy, syntax.NtOneloopatomic,
		syntax.NtNotoneloop, syntax.NtNotonelazy, syntax.NtNotoneloopatomic,
		syntax.NtSetloop, syntax.NtSetlazy, syntax.NtSetloopatomic:
		var unit []rune
		switch n.T {
		case syntax.NtOneloop, syntax.NtOnelazy, syntax.NtOneloopatomic:
			unit = []rune{n.Ch}
		case syntax.NtNotoneloop, syntax.NtNotonelazy, syntax.NtNotoneloopatomic:
			unit = []rune{notOne(n.Ch, g.pref)}
		default:
			unit = setMembers(n.Set, g.pref, 2)
		}
		var out [][]rune
		for _, k := range loopCounts(n.M, n.N) {
			for _, u := range unit {
				out = append(out, repeatW([]rune{u}, k))
			}
			if len(unit) == 2 && k >= 2 { // mixed members
				w := repeatW([]rune{unit[0]}, k)
				w[len(w)-1] = unit[1]
				out = append(out, w)
			}
		}
		return capW(out)
	case syntax.NtLoop, syntax.NtLazyloop:
		var out [][]rune
		kids := g.gen(n.Children[0], depth+1)
		for _, k := range loopCounts(n.M, n.N) {
			for i, w := range kids {
				if i >= 2 {
					break
				}
				out = append(out, repeatW(w, k))
			}
			if len(kids) >= 2 && k >= 2 {
				out = append(out, append(repeatW(kids[0], k-1), kids[1]...))
			}
		}
		return capW(out)
	case syntax.NtConcatenate:
		kid := make([][][]rune, len(n.Children))
		for i, c := range n.Children {
			kid[i] = g.gen(c, depth+1)
			if len(kid[i]) == 0 {
				return nil
			}
		}
		join := func(pick func(i int) []rune) []rune {
			var w []rune
			if n.Options&syntax.RightToLeft != 0 {
				// a right-to-left concatenation keeps its children in matching order, i.e. last text first
				for i := len(kid) - 1; i >= 0; i-- {
					w = append(w, pick(i)...)
				}
				return w
			}
			for i := range kid {
				w = append(w, pick(i)...)
			}
			return w
		}
		out := [][]rune{join(func(i int) []rune { return kid[i][0] })}
		for v := range kid {
			for alt := 1; alt < len(kid[v]); alt++ {
				v, alt := v, alt
				out = append(out, join(func(i int) []rune {
					if i == v {
						return kid[i][alt]
					}
					return kid[i][0]
				}))
			}
		}
		return capW(out)
	case syntax.NtAlternate:
		var out [][]rune
		// first witness of every branch first, then the rest
		var rest [][]rune
		for _, c := range n.Children {
			ws := g.gen(c, depth+1)
			if len(ws) > 0 {
				out = append(out, ws[0])
				rest = append(rest, ws[1:]...)
			}
		}
		if len(out) > langMaxWitness {
			// keep the first, the last and an even spread: long alternations matter by their length
			keep := [][]rune{}
			step := float64(len(out)-1) / float64(langMaxWitness-1)
			for i := 0; i < langMaxWitness; i++ {
				keep = append(keep, out[int(float64(i)*step+0.5)])
			}
			out = keep
		}
		return capW(append(out, rest...))
	case syntax.NtCapture, syntax.NtGroup, syntax.NtAtomic:
		if len(n.Children) > 0 {
			return g.gen(n.Children[0], depth+1)
		}
		return [][]rune{{}}
	case syntax.NtBackRefCond:
		var out [][]rune
		for _, c := range n.Children {
			out = append(out, g.gen(c, depth+1)...)
		}
		return capW(out)
	case syntax.NtExprCond:
		var out [][]rune
		for i, c := range n.Children {
			if i == 0 {
				continue
			}
			out = append(out, g.gen(c, depth+1)...)
		}
		if len(out) == 0 {
			out = [][]rune{{}}
		}
		return capW(out)
	case syntax.NtPosLook:
		// a positive lookahead contributes no text of its own, but the text it asks for must follow: offer its
		// witnesses as if they were consumed (the node after it then usually matches a prefix of them)
		if len(n.Children) > 0 && n.Options&syntax.RightToLeft == 0 {
			return capW(append([][]rune{{}}, g.gen(n.Children[0], depth+1)...))
		}
		return [][]rune{{}}
	case syntax.NtNothing:
		return nil
	default:
		// anchors, lookarounds, backreferences, empty: contribute no text
		return [][]rune{{}}
	}
}

// langInputs builds the pattern-derived input set of a text pattern; nil when the pattern does not parse.
func langInputs(src string, o optSet) (inputs [][]rune, witnesses int, capped bool) {
	tree, err := syntax.Parse(src, syntax.ParseOptions{RegexOptions: syntaxOptions(o)})
	if err != nil || tree == nil || tree.Root == nil {
		return nil, 0, false
	}
	alpha := patternAlphabet(src)
	g := &langGen{pref: alpha}
	ws := g.gen(tree.Root, 0)
	sort.SliceStable(ws, func(i, j int) bool { return len(ws[i]) < len(ws[j]) })
	small := alpha
	if len(small) > 3 {
		small = append(append([]rune{}, alpha[:3]...), 'x')
	}
	seen := map[string]bool{}
	add := func(w []rune) {
		if len(inputs) >= langMaxInputs {
			capped = true
			return
		}
		if k := string(w); !seen[k] {
			seen[k] = true
			inputs = append(inputs, append([]rune{}, w...))
		}
	}
	cat3 := func(a, b, c []rune) []rune { return append(append(append([]rune{}, a...), b...), c...) }
	pad := []rune{'x'}
	for _, w := range ws {
		add(w)
	}
	// inputs that stop in the middle of the pattern, or start there
	for _, w := range ws {
		for i := range w {
			add(w[:i])
		}
	}
	for _, w := range ws {
		for i := 1; i < len(w); i++ {
			add(w[i:])
		}
	}
	for _, w := range ws {
		add(cat3(pad, w, nil))
		add(cat3(nil, w, pad))
		add(cat3(pad, w, pad))
		add(cat3([]rune{'\n'}, w, []rune{'\n'}))
		add(cat3(w, nil, w))
	}
	for _, w := range ws {
		for i := range w {
			add(cat3(w[:i], nil, w[i+1:])) // deletion
		}
	}
	for _, w := range ws {
		for i := range w {
			for _, r := range small {
				if r != w[i] {
					add(cat3(w[:i], []rune{r}, w[i+1:]))
				}
			}
		}
	}
	return inputs, len(ws), capped
}

// ---- LIM: text patterns straddling the size constants of the compile-time analyses (iteration cut-offs of the
// prefix analysis, prefix length and prefix count limits, set-size limits of the candidate search, number of
// fixed-distance sets, alternation widths); inputs are pattern-derived (langInputs) ----

func limFamily() []Pat {
	var srcs []string
	add := func(f string, a ...any) { srcs = append(srcs, sprintf(f, a...)) }
	// A. counted loops n = 1..7
	for n := 1; n <= 7; n++ {
		for _, f := range []string{`(?:ab){%d}c`, `(ab){%d}c`, `(?:ab){%d}?c`, `(?:ab){%d,}c`, `(?>ab){%d}c`, `(?:ab){%d}`, `x(?:ab){%d}c`, `(?:a.){%d}c`,
			`(?:[ab]c){%d}d`, `a{%d}b`, `[ab]{%d}c`, `.{%d}c`, `(?:ab){%d}\b`, `(?:ab|cd){%d}e`, `^(?:ab){%d}$`, `(?:ab){%d}[cd]`} {
			add(f, n)
		}
		add(`(?:ab){%d,%d}c`, n, n+1)
		add(`(?:ab){%d}(?:cd){%d}e`, n, n)
		add(`(?:ab){0,%d}c`, n)
		add(`(?:(?:ab){%d}c){2}d`, n)
	}
	// A2. counted loops around maxLoopExpansion (20), maxFixedResults (50) and MultiVsRepeaterLimit (64)
	for _, n := range []int{19, 20, 21, 22, 25, 32, 49, 50, 51, 63, 64, 65} {
		for _, f := range []string{`[ab]{%d}c`, `a{%d}b`, `[xy]a{%d}b`, `\d{%d}:`, `.{%d}c`, `[ab]{%d}cd`, `[ab]{%d}[cd]`, `a{%d}`, `(?:ab){%d}c`, `[ab]{%d,}c`, `x[ab]{%d}c`} {
			if n > 32 && (f == `(?:ab){%d}c`) {
				continue
			}
			add(f, n)
		}
	}
	add(`[ab]{20}[cd]{20}[ef]{12}g`)
	add(`[ab]{20}[cd]{20}[ef]{9}g`)
	add(`[ab]{10}c[ab]{10}d[ab]{10}e[ab]{10}f[ab]{10}g`)
	// B. long literals and shared prefixes, length 1..12
	abc := "abcdefghijkl"
	for k := 1; k <= 12; k++ {
		l := abc[:k]
		add(`%s`, l)
		add(`%sX|%sY`, l, l)
		add(`(%sX)|(%sY)`, l, l)
		add(`(?:%sX|%sYZ|%s)`, l, l, l)
		add(`[xy]%s`, l)
		add(`\w*%s`, l)
		add(`.*?%sm`, l)
		add(`%s\d`, l)
		add(`x?%s`, l)
		add(`(?=%s)\w+`, l)
	}
	// B2. literals around the Boyer-Moore prefix size limit (50 runes)
	long := "abcdefghijklmnopqrstuvwxyz0123456789ABCDEFGHIJKLMNOPQRSTUVWXYZ"
	for _, k := range []int{48, 49, 50, 51, 52, 62} {
		l := long[:k]
		add(`%s`, l)
		add(`[xy]*%s`, l)
		add(`%s[xy]*`, l)
		add(`(%s)\d?`, l)
	}
	// C. alternation width
	for _, k := range []int{2, 3, 4, 5, 6, 8, 15, 16, 17, 18, 32, 33} {
		var distinct, shared, capt []string
		for i := 0; i < k; i++ {
			c := string(rune('b' + i%24))
			d := string(rune('a' + i/24))
			distinct = append(distinct, c+d+"a")
			shared = append(shared, "a"+c+d)
			capt = append(capt, "(a"+c+d+")")
		}
		add(`%s`, join(distinct, "|"))
		add(`(?:%s)z`, join(distinct, "|"))
		add(`%s`, join(shared, "|"))
		add(`(?:%s)z`, join(shared, "|"))
		add(`%s`, join(capt, "|"))
		add(`x(?:%s)`, join(capt, "|"))
	}
	// D. set sizes 1..7 in leading and fixed-distance positions
	letters := "abcdefg"
	for k := 1; k <= 7; k++ {
		set := letters[:k]
		for _, f := range []string{`[%s]x`, `.[%s]x`, `..[%s]x`, `z[%s]x`, `[^%s]x`, `[%s]+x`, `\d[%s]`, `[%s]{2}x`, `(?:[%s]|q)x`, `[%s]x|[%s]y`} {
			if f == `[%s]x|[%s]y` {
				add(f, set, set)
			} else {
				add(f, set)
			}
		}
	}
	add(`[a-e]x`)
	add(`[a-ej-n]x`)
	add(`[a-ej-nq-t]x`)
	add(`[^a-e]x`)
	// E. runs of fixed-distance sets
	pairs := []string{"[ab]", "[cd]", "[ef]", "[gh]", "[ij]", "[kl]"}
	for k := 1; k <= 6; k++ {
		add(`%s`, join(pairs[:k], ""))
		add(`%sz`, join(pairs[:k], ""))
		add(`.%s`, join(pairs[:k], ""))
	}
	// F. literal after a leading loop, optional chains, length bounds
	for _, s := range []string{`a*bcd`, `[ab]*cde`, `\w+@`, `.*abc`, `\s*abc`, `[^,]*,abc`, `\d*-\d`, `a+?bcd`, `(?:a|b)*cde`, `(a*)bcd`, `[a-c]*?cab`,
		`a?b?c?d?e?f?g?h?i?j`, `a{2,5}b{0,3}`, `(?:ab|cde){2,3}`, `a{0,3}b{2}`, `(?:a{2}){2,3}`, `(?:ab?){3}c`, `(?:a|bc){3}d`,
		`[a-z]+(?:\s+at\s+|\s*@\s*)[a-z]*(?:\s+dot\s+|\.)[a-z]+`, `(\w+)(\s+at\s+)(\w+)(\s+dot\s+)(\w+)`, `[a-z]+\s+at\s+[a-z]+\s+dot\s+[a-z]+`, `[a-z]*?(?:\s*@\s*)[a-z]*(?:\.|dot)[a-z]+`,
		`[a-z]+\d*@\w+\.com`, `\w+\s*=\s*\d+;`, `[a-z]+-?:\d+/`, `[ab]+c*(?:x|y)[ab]*(?:z)[ab]+`, `[a-z]+\d?(?:-|_)[a-z]*(?:\.)[a-z]+`,
		`[xy]*(abc|b)(c)(d)`, `[xy]*(?:abcdef|b)cde`, `[xy]*(?:ab|b)(c)d`, `[xy]*(b|abc)(c)(d)`, `[xy]+(?:abc|b)(?:c|cc)(d)`, `\w*?(?:-ab|-)(b)(c)`,
		`[ab]+(?: x | y)[ab]*(?:z |w)[ab]+`, `\w+\s+in\s+\w+\s+of\s+\w+`,
		`[a-z]*(?:at\s+|\s+at)\s*\d+\.com`, `[a-z]*(?:\s+at|at\s+)\s*\d+\.com`, `[ab]*(?:c\s+|\s+c)\s*(d)(e)`, `\w*(?:-\s+|\s+-)\s*(\d)(;)`, `[a-z]+(?:=\s*|\s*=)(\d)(;)(\s)`, `[a-z]*(?:at\s|\s\s+at)\s*(\d)(\.)`,
		`\bfoo\b`, `foo\b.`, `^abc$`, `abc$`, `\Aabc\z`, `(?m)^abc$`, `(?m)abc$\n?d`} {
		add(`%s`, s)
	}
	// G. literals of 2, 3 and 4 UTF-8 bytes with 0..4 unconstrained positions before the next literal: distances are
	// counted in runes, and anything that measures a literal run in bytes is off by exactly the extra bytes
	for _, c := range []string{"é", "中", "😀", "éé", "é中"} {
		for w := 0; w <= 4; w++ {
			for _, wild := range []string{".", "[^q]", `\w`} {
				gap := strings.Repeat(wild, w)
				add(`[xy]%s%sab`, c, gap)
				add(`\d%s%sa`, c, gap)
				add(`.%s%sab`, c, gap)
				add(`[xy]%s%s%s`, c, gap, c)
				if w > 0 && wild != "." {
					add(`[xy]%s%s{%d}ab`, c, wild, w)
				}
			}
		}
	}
	// H. alternation branches whose first runes differ but share leading UTF-8 bytes (a common prefix computed on
	// bytes ends inside a rune)
	for _, pr := range [][2]string{{"高", "髙"}, {"😀", "😁"}, {"é", "è"}, {"中", "丮"}} {
		add(`%sx|%sy`, pr[0], pr[1])
		add(`(%sx)|(%sy)`, pr[0], pr[1])
		add(`(?:a(?:%sx|%sy))+`, pr[0], pr[1])
		add(`\B%sx|\B%sy`, pr[0], pr[1])
		add(`a%sx|a%sy|a%s`, pr[0], pr[1], pr[0])
	}
	seen := map[string]bool{}
	var out []Pat
	for _, s := range srcs {
		if !seen[s] {
			seen[s] = true
			out = append(out, Pat{Src: s, Fam: "LIM"})
		}
	}
	return out
}

func sprintf(f string, a ...any) string   { return fmt.Sprintf(f, a...) }
func join(xs []string, sep string) string { return strings.Join(xs, sep) }
