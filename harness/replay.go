package main

import (
	"encoding/json"
	"fmt"
	"os"
)

// replayMain re-executes a recorded violation through the registered replayer of its property.
var replayers = map[string]func(v Violation) (still bool, detail string){}

func replayMain(args []string) int {
	if len(args) != 1 {
		fmt.Fprintln(os.Stderr, "usage: rxv replay <file>")
		return 2
	}
	b, err := os.ReadFile(args[0])
	if err != nil {
		fmt.Fprintln(os.Stderr, err)
		return 2
	}
	var v Violation
	if err := json.Unmarshal(b, &v); err != nil {
		fmt.Fprintln(os.Stderr, err)
		return 2
	}
	rp := replayers[v.Property]
	if rp == nil {
		fmt.Printf("no replayer for %s; recorded detail: %s\n", v.Property, v.Detail)
		return 2
	}
	still, detail := rp(v)
	fmt.Printf("replay %s leg=%s pattern=%q options=%s input=%s\n  %s\n", v.Property, v.Leg, v.Pattern, v.Options, v.Input, detail)
	if still {
		fmt.Printf("VIOLATION property=%s replay=%s\n", v.Property, args[0])
		return 1
	}
	fmt.Println("not reproduced on this tree")
	return 0
}
