package main

// C05: compiling with the semantics-preserving tree rewrites switched off gives the same
// results as the normal compile.

import (
	"slices"
	"sync"
	"time"

	regexp2 "github.com/dlclark/regexp2/v2"
	"github.com/dlclark/regexp2/v2/syntax"
)

func init() {
	register("C05", runC05)
	replayers["C05"] = replayC05
}

// compileGate serialises compiles that flip the package-level rewrite switch against all others.
var compileGate sync.RWMutex

func compileRewritesOff(src string, mask uint32, opts ...regexp2.CompileOption) (*regexp2.Regexp, error) {
	compileGate.Lock()
	defer compileGate.Unlock()
	syntax.VerifSetRewritesOff(mask)
	defer syntax.VerifSetRewritesOff(0)
	return regexp2.Compile(src, opts...)
}

func compileNormal(src string, opts ...regexp2.CompileOption) (*regexp2.Regexp, error) {
	compileGate.RLock()
	defer compileGate.RUnlock()
	return regexp2.Compile(src, opts...)
}

// The hook offers a seventh switch (folding (?>loop) into an atomic loop node). It is not used:
// that folding is not among the rewrites the property lists, and with it off the nested-repeater
// multiplication the property carves out ((?>a+){2} -> (?>a{2,})) no longer applies, so the two
// compiles legitimately differ. rewritesMask is exactly the property's list.
var rewriteNames = []string{"auto-atomic", "ending-backtracking", "bumpalong", "prefix-text", "prefix-one-notone-set", "atomic-alternation"}

const rewritesMask = syntax.VerifNoRewritesAll &^ syntax.VerifNoAtomicLoopFold

func c05Each(c *Ctx) func(jc *jobCase) (int64, int64, *Violation) {
	return func(jc *jobCase) (n, nt int64, bad *Violation) {
		if jc.ast != nil && jc.j.fam != "NWB" && kfNonwordLoopBeforeNonboundary(jc.ast) {
			return 0, 0, nil
		}
		copts := jc.j.opts.compileOptions()
		reOn, err := compileNormal(jc.src, copts...)
		if err != nil {
			if jc.p.AST == nil {
				return 0, 0, nil
			}
			return 0, 0, &Violation{Leg: "compile", Detail: "enumerated pattern does not compile: " + err.Error()}
		}
		reOff, err := compileRewritesOff(jc.src, rewritesMask, copts...)
		if err != nil {
			return 0, 0, &Violation{Leg: "compile-off", Detail: "pattern compiles normally but not with rewrites off: " + err.Error()}
		}
		differs := !slices.Equal(reOn.VerifCode().Codes, reOff.VerifCode().Codes)
		if differs {
			nt = 1
			for b := 0; b < len(rewriteNames); b++ {
				r1, e := compileRewritesOff(jc.src, 1<<b, copts...)
				if e == nil && !slices.Equal(reOn.VerifCode().Codes, r1.VerifCode().Codes) {
					c.Outcome("rewrite-fired:"+rewriteNames[b], 1)
				}
			}
		}
		for _, in := range jc.inputs {
			for st := 0; st <= len(in); st++ {
				n++
				m0, _, e0 := reOff.VerifNaiveScan(in, st, st)
				base := fromMatch(m0, e0)
				if differs {
					m1, _, e1 := reOn.VerifNaiveScan(in, st, st)
					if a := fromMatch(m1, e1); !base.equal(a) {
						return n, nt, c05Blame(jc, in, st, "meaning", base, a, copts)
					}
				}
				if p := fromMatch(reOn.FindRunesMatchStartingAt(in, st)); !base.equal(p) {
					return n, nt, c05Blame(jc, in, st, "public", base, p, copts)
				}
			}
		}
		return
	}
}

// c05Blame bisects the mask: which single rewrite, when switched off, removes the disagreement?
func c05Blame(jc *jobCase, in []rune, st int, leg string, base, got mres, copts []regexp2.CompileOption) *Violation {
	blame := ""
	for b := 0; b < len(rewriteNames); b++ {
		r1, e := compileRewritesOff(jc.src, 1<<b, copts...)
		if e != nil {
			continue
		}
		var a mres
		if leg == "meaning" {
			m1, _, e1 := r1.VerifNaiveScan(in, st, st)
			a = fromMatch(m1, e1)
		} else {
			a = fromMatch(r1.FindRunesMatchStartingAt(in, st))
		}
		if base.equal(a) {
			blame += " " + rewriteNames[b]
		}
	}
	v := vio(leg, in, st, "rewrites-off=%s rewrites-on=%s; disagreement disappears when switching off only:%s", base, got, blame)
	return v
}

func runC05(c *Ctx) {
	c.Level = "exploration"
	thorough := c.Tier == "thorough"
	if thorough {
		c.SetBudget(40 * time.Minute)
	} else {
		c.SetBudget(5 * time.Minute)
	}
	c.Rule = "every pattern of each listed family x option set x every input up to the bound x every start offset: (leg meaning) naive scan of the normally compiled program == naive scan of the program compiled with the six listed rewrites off (auto-atomic loops, ending-backtracking removal in root/atomic/lookaround/conditional contexts, bump-along marker, alternation prefix factoring (text and one/notone/set), atomic alternation trimming/reordering); (leg public) public FindRunesMatchStartingAt of the normal compile == the same baseline (needed for the bump-along marker, which only acts between attempts). Non-trivial = patterns whose bytecode differs between the two compiles."
	c.Assume("hook switches in syntax/tree.go disable exactly the named rewrites; other reductions (loop coalescing, nested-repeater multiplication, set merging) stay on in both compiles and are C01's business")
	var jobs []job
	add := func(fam string, pats []Pat, o optSet, pr profile, L int) {
		jobs = append(jobs, job{fam: fam, pats: pats, opts: o, prof: pr, maxL: L})
	}
	core4 := coreFamily("CORE", grammarCore(), 4)
	seq2 := seqFamily(2, true)
	seq3 := seqFamily(3, false)
	altL := altFamily(false)
	loopF := loopFamily(true)
	lookF := lookFamily(false)
	anch := anchFamily(4, false)
	land := landFamily()
	corpus := corpusPatterns()
	anchProf := profile{name: "ANCH {a,\\n,c}", m: map[rune]rune{'b': '\n'}, input: []rune{'a', 'b', 'c'}}
	nwbNl := profile{name: "NWB {a,\\n,c}", m: map[rune]rune{'N': '\n'}, input: []rune{'a', 'N', 'c'}}
	add("CORE<=4", core4, "", profP0, 4)
	add("CORE<=4", core4, "R", profP0, 4)
	add("SEQ k<=2 anchored", seq2, "", profP0, 5)
	add("SEQ k<=2 anchored", seq2, "m", profP6, 4)
	add("SEQ k<=2 anchored", seq2, "", profP6, 4)
	add("SEQ k<=2 anchored", seq2, "i", profP0i, 4)
	add("SEQ k<=2 anchored", seq2, "s", profP1, 4)
	add("SEQ k<=3", seq3, "", profP0, 4)
	add("ALT", altL, "", profP0, 5)
	add("ALT", altL, "i", profP0i, 4)
	add("ALT", altL, "2", profP0, 4)
	add("ALTB", altBranchFamily(false), "", profP0, 4)
	add("LOOP3", loop3Family(false), "", profP0, 6)
	add("LOOK3", look3Family(), "", profP0, 5)
	add("ALTREP", altRepFamily(), "", profP0, 5)
	add("SETOVL", setOvlFamily(), "", profP0, 5)
	add("LOOKLOOP", lookLoopFamily(), "", profP0, 6)
	add("LOOKLOOP", lookLoopFamily(), "R", profP0, 6)
	add("LOOPALT", loopAltFamily(), "", profP0, 5)
	add("BUMP", bumpFamily(), "", profP0, 5)
	add("LOOP", loopF, "", profP0, 4)
	add("LOOK", lookF, "", profP0, 4)
	add("ANCH<=4", anch, "", anchProf, 4)
	add("ANCH<=4", anch, "m", anchProf, 4)
	add("LAND", land, "", profP0, 5)
	add("NWB", nwbFamily(), "", nwbNl, 4)
	add("CORPUS", corpus, "", profCorpus, 3)
	add("LIM", limFamily(), "", profCorpus, 2)
	if thorough {
		core5 := coreFamily("CORE", grammarCore(), 5)
		add("CORE<=5", core5, "", profP0, 4)
		add("SEQ k<=3 anchored", seqFamily(3, true), "", profP0, 5)
		add("SEQ k<=3", seq3, "m", profP6, 4)
		add("ALT full", altFamily(true), "", profP0, 5)
		add("ALTB full", altBranchFamily(true), "", profP0, 5)
		add("LOOP3 full", loop3Family(true), "", profP0, 6)
		add("LOOP", loopF, "", profP0, 5)
		add("LOOP", loopF, "m", profP6, 4)
		add("LOOK", lookF, "", profP0, 5)
		add("LOOK", lookF, "R", profP0, 4)
		for _, o := range []optSet{"i", "m", "s", "2"} {
			pr := profP0
			if o == "i" {
				pr = profP0i
			}
			add("CORE<=4", core4, o, pr, 4)
		}
		for _, pr := range []profile{profP1, profP2, profP3, profP6} {
			add("CORE<=4", core4, "", pr, 4)
		}
		add("CORPUS", corpus, "i", profCorpus, 3)
		add("CORPUS", corpus, "m", profCorpus, 3)
	}
	c.runJobs(jobs, c05Each(c))
}

func replayC05(v Violation) (bool, string) {
	copts := optSet(v.Options).compileOptions()
	reOn, err := compileNormal(v.Pattern, copts...)
	if err != nil {
		return false, "compile error: " + err.Error()
	}
	reOff, err := compileRewritesOff(v.Pattern, rewritesMask, copts...)
	if err != nil {
		return true, "compile with rewrites off fails: " + err.Error()
	}
	in, st := replayInput(v)
	m0, _, e0 := reOff.VerifNaiveScan(in, st, st)
	base := fromMatch(m0, e0)
	m1, _, e1 := reOn.VerifNaiveScan(in, st, st)
	a := fromMatch(m1, e1)
	p := fromMatch(reOn.FindRunesMatchStartingAt(in, st))
	return !base.equal(a) || !base.equal(p), "rewrites-off=" + base.String() + " rewrites-on(naive)=" + a.String() + " rewrites-on(public)=" + p.String()
}
