package main

import (
	"flag"
	"fmt"
	"os"
	"sort"

	regexp2 "github.com/dlclark/regexp2/v2"
)

type checkFn func(c *Ctx)

var checks = map[string]checkFn{}

func register(id string, f checkFn) { checks[id] = f }

func main() {
	if len(os.Args) < 2 {
		fmt.Fprintln(os.Stderr, "usage: rxv <C01..C20|replay|list> [-tier quick|thorough]")
		os.Exit(2)
	}
	id := os.Args[1]
	fs := flag.NewFlagSet(id, flag.ExitOnError)
	tier := fs.String("tier", "quick", "quick|thorough")
	fs.Parse(os.Args[2:])
	if t := os.Getenv("VERIF_TIER"); t == "quick" || t == "thorough" {
		if !flagSet(fs, "tier") {
			*tier = t
		}
	}
	switch id {
	case "list":
		var ids []string
		for k := range checks {
			ids = append(ids, k)
		}
		sort.Strings(ids)
		for _, k := range ids {
			fmt.Println(k)
		}
		return
	case "replay":
		os.Exit(replayMain(fs.Args()))
	case "sched-worker":
		os.Exit(schedWorker(os.Args[2:]))
	}
	f, ok := checks[id]
	if !ok {
		fmt.Fprintln(os.Stderr, "unknown check", id)
		os.Exit(2)
	}
	regexp2.VerifSetStepBudget(defaultStepBudget)
	c := newCtx(id, *tier)
	f(c)
	os.Exit(c.Finish())
}

const defaultStepBudget = 20_000_000

func flagSet(fs *flag.FlagSet, name string) bool {
	set := false
	fs.Visit(func(f *flag.Flag) {
		if f.Name == name {
			set = true
		}
	})
	return set
}

// schedWorker is replaced by the schedule-exploration worker in builds with the sched tag.
var schedWorker = func(args []string) int {
	fmt.Fprintln(os.Stderr, "this binary was built without the sched tag")
	return 2
}
