package main

// C01 / C15: the engine's first match and captures equal the reference backtracking matcher
// on every (pattern, option set, input, start offset) of the enumerated fragment.

import (
	"fmt"
	"os"
	"strings"
	"sync/atomic"
	"time"

	regexp2 "github.com/dlclark/regexp2/v2"
)

func init() {
	register("C01", func(c *Ctx) { runSpecCheck(c, false) })
	register("C15", func(c *Ctx) { runSpecCheck(c, true) })
	replayers["C01"] = replaySpec
	replayers["C15"] = replaySpec
}

// profile = alphabet renaming applied to pattern letters and input letters.
type profile struct {
	name  string
	m     map[rune]rune
	input []rune          // input alphabet before renaming
	enc   map[rune]string // optional: raw byte encoding of (renamed) input-only letters, for invalid UTF-8
}

// encode builds the byte string for a (renamed) rune input.
func (pr profile) encode(in []rune) string {
	if pr.enc == nil {
		return string(in)
	}
	var sb []byte
	for _, r := range in {
		if e, ok := pr.enc[r]; ok {
			sb = append(sb, e...)
		} else {
			sb = append(sb, string(r)...)
		}
	}
	return string(sb)
}

var (
	profP0  = profile{name: "P0-ascii", input: []rune{'a', 'b', 'c'}}
	profP0i = profile{name: "P0-mixedcase", m: map[rune]rune{}, input: []rune{'a', 'B', 'c'}}
	profP1  = profile{name: "P1-latin1+newline", m: map[rune]rune{'a': 'é', 'c': '\n'}, input: []rune{'a', 'b', 'c'}}
	profP1i = profile{name: "P1-latin1-mixedcase", m: map[rune]rune{'a': 'é', 'B': 'É'}, input: []rune{'a', 'B', 'b'}}
	profP2  = profile{name: "P2-astral+combining", m: map[rune]rune{'b': 0x1D538, 'c': 0x0301}, input: []rune{'a', 'b', 'c'}}
	profP3  = profile{name: "P3-U+FFFD", m: map[rune]rune{'b': 0xFFFD}, input: []rune{'a', 'b', 'c'}}
	profP6  = profile{name: "P6-newline-pattern-letter", m: map[rune]rune{'b': '\n'}, input: []rune{'a', 'b', 'c'}}
	profP4  = profile{name: "P4-invalid-byte-0xFF", m: map[rune]rune{'c': 0xE000}, input: []rune{'a', 'b', 'c'}, enc: map[rune]string{0xE000: "\xff"}}
	profP5  = profile{name: "P5-truncated-E2-82", m: map[rune]rune{'c': 0xE000}, input: []rune{'a', 'b', 'c'}, enc: map[rune]string{0xE000: "\xe2\x82"}}
	profP34 = profile{name: "P34-U+FFFD-pattern-letter+0xFF-input", m: map[rune]rune{'b': 0xFFFD, 'c': 0xE000}, input: []rune{'a', 'b', 'c'}, enc: map[rune]string{0xE000: "\xff"}}
	// punctuation whose codes differ by 0x20 like the two cases of a letter ([ and {, @ and `): must never be taken for a case pair
	profPP = profile{name: "PP-punctuation-pairs [ { \"", m: map[rune]rune{'a': '[', 'b': '{', 'c': '"'}, input: []rune{'a', 'b', 'c'}}
	profPQ = profile{name: "PQ-punctuation-pairs @ ` ~", m: map[rune]rune{'a': '@', 'b': '`', 'c': '~'}, input: []rune{'a', 'b', 'c'}}
	// two astral letters and the last BMP code point: a complement set written for 16-bit characters loses everything above U+FFFF
	profP7  = profile{name: "P7-astral-pair+U+FFFF", m: map[rune]rune{'a': 0x1D538, 'b': 0x20000, 'c': 0xFFFF}, input: []rune{'a', 'b', 'c'}}
	profP45 = profile{name: "P45-é+0xFF", m: map[rune]rune{'a': 'é', 'c': 0xE000}, input: []rune{'a', 'b', 'c'}, enc: map[rune]string{0xE000: "\xff"}}
	profGk  = profile{name: "P7-greek-mixedcase", m: map[rune]rune{'a': 'δ', 'B': 'Δ', 'b': 'ж'}, input: []rune{'a', 'B', 'b'}}
)

type specJob struct {
	fam   string
	pats  []Pat
	opts  optSet
	prof  profile
	maxL  int
	heavy bool // only in thorough
	// long: the inputs are the listed long block-built strings instead of every string up to maxL, and a fresh
	// Regexp is compiled for every input (the backtracking stack of a pooled runner only grows once)
	long [][]rune
}

// specCompare checks one compiled pattern against the model on every input and offset.
// Returns the number of points evaluated and the first disagreement (if any).
func specCompare(re *regexp2.Regexp, ast *Node, ngroups int, so specOpts, inputs [][]rune, distinct map[string]struct{}) (points int64, matched int64, bad *Violation) {
	for _, in := range inputs {
		for st := 0; st <= len(in); st++ {
			points++
			want := specFind(ast, in, st, so, ngroups)
			got := fromMatch(re.FindRunesMatchStartingAt(in, st))
			if want.ok {
				matched++
			}
			if !want.equal(got) {
				if bad == nil {
					bad = &Violation{Input: qr(in), Detail: fmt.Sprintf("start=%d model=%s engine=%s", st, want, got),
						Extra: map[string]any{"input_runes": in, "start": st}}
				}
				return
			}
		}
	}
	return
}

func runSpecCheck(c *Ctx, rtl bool) {
	c.Level = "model_checking"
	thorough := c.Tier == "thorough"
	if thorough {
		c.SetBudget(40 * time.Minute)
	} else {
		c.SetBudget(4 * time.Minute)
	}
	dir := "left-to-right"
	if rtl {
		dir = "RightToLeft"
	}
	c.Rule = "every pattern printed from the ASTs of each listed grammar up to its size bound (quantifier operands non-nullable and not themselves quantified items) x every option set listed x every input string up to the length bound over the profile's 3-letter alphabet x every start offset; compared point by point (match, index, length, complete capture list of every group) with an independent continuation-passing reference matcher, " + dir + ". A point is non-trivial when the reference model finds a match there."
	c.Assume("reference matcher harness/spec.go is the specification of the fragment (it is independent of /repo's code)")
	c.Assume("bounds: pattern size, input length and alphabets as listed per family; nothing is claimed beyond them")

	coreS4 := coreFamily("CORE-S", grammarCoreS(), 4)
	var coreS5, coreS6 []Pat
	coreS5 = coreFamily("CORE-S", grammarCoreS(), 5)
	if thorough {
		// size 6 on the full CORE-S grammar is ~1.2e7 trees (43 GB when materialised: the first thorough run was
		// ended by the kernel's OOM killer); a reduced grammar (5 leaves, 3 quantifiers) reaches size 6 with 4.1e5
		coreS6 = coreFamily("CORE-S(reduced: a b . $ \\1; * +? ?)", &grammar{leaves: []*Node{lit('a'), lit('b'), anyc(), asrt('$'), {K: KRef, Cap: 1}},
			quants: []quant{{0, -1, false}, {1, -1, true}, {0, 1, false}}, c01: true, caps: true, atomics: true, looks: true, condRef: true}, 6)
	}
	named := coreFamily("NAMED", &grammar{leaves: append(coreLeaves("^$G", true), &Node{K: KRef, Name: "n"}), quants: quantsAll[:6], c01: true, caps: true, named: true, atomics: true, condRef: true}, 4)
	condexp := coreFamily("CONDEXP", &grammar{leaves: coreLeaves("$G", true), quants: []quant{{0, -1, false}, {0, 1, true}}, c01: true, caps: true, condExp: true}, 5)
	optg := coreFamily("OPTGROUP", &grammar{leaves: []*Node{lit('a'), lit('b'), anyc(), set(true, 'a'), asrt('^'), asrt('$')}, quants: []quant{{0, -1, false}, {1, -1, true}}, c01: true, caps: true,
		optGroups: [][2]string{{"i", ""}, {"", "i"}, {"s", ""}, {"m", ""}, {"", "m"}, {"", "s"}, {"im", "s"}}}, 4)
	seq2 := seqFamily(2, true)
	seq3 := seqFamily(3, false)
	altL := altFamily(false)
	loopF := loopFamily(false)
	lookF := lookFamily(true)
	anch := anchFamily(4, true)
	land := landFamily()

	var jobs []specJob
	base := optSet("")
	if rtl {
		base = "R"
	}
	add := func(fam string, pats []Pat, o optSet, pr profile, L int, heavy bool) {
		jobs = append(jobs, specJob{fam: fam, pats: pats, opts: base + o, prof: pr, maxL: L, heavy: heavy})
	}
	// main breadth
	add("CORE-S<=5", coreS5, "", profP0, 4, false)
	for _, o := range []optSet{"i", "m", "s", "n", "x", "2", "im", "ms", "is", "ix"} {
		pr := profP0
		if o.has('i') {
			pr = profP0i
		}
		if rtl && (o == "n" || o == "x" || o == "2" || o == "ix") {
			continue
		}
		add("CORE-S<=4", coreS4, o, pr, 4, false)
	}
	for _, pr := range []profile{profP1, profP2, profP3, profP6} {
		add("CORE-S<=4", coreS4, "", pr, 4, false)
		add("CORE-S<=4", coreS4, "m", pr, 4, false)
	}
	add("CORE-S<=4", coreS4, "i", profP1i, 4, false)
	add("CORE-S<=4", coreS4, "i", profGk, 4, false)
	add("NAMED<=4", named, "", profP0, 4, false)
	add("NAMED<=4", named, "n", profP0, 4, false)
	add("CONDEXP<=5", condexp, "", profP0, 4, false)
	add("OPTGROUP<=4", optg, "", profile{name: "P0-mixedcase+newline", m: map[rune]rune{'c': '\n'}, input: []rune{'a', 'B', 'c'}}, 4, false)
	add("SEQ k<=2 anchored", seq2, "", profP0, 5, false)
	add("SEQ k<=2 anchored", seq2, "m", profP6, 4, false)
	add("SEQ k<=3", seq3, "", profP0, 5, false)
	add("ALT", altL, "", profP0, 5, false)
	add("ALT", altL, "i", profP0i, 4, false)
	add("LOOP3", loop3Family(false), "", profP0, 6, false)
	add("LOOK3", look3Family(), "", profP0, 5, false)
	add("ALTREP", altRepFamily(), "", profP0, 5, false)
	add("BUMP (fragment)", bumpFamilyC01(), "", profP0, 5, false)
	var setOvl []Pat
	for _, p := range setOvlFamily() {
		if inC01Fragment(p.AST) {
			setOvl = append(setOvl, p)
		}
	}
	add("SETOVL (fragment)", setOvl, "", profP0, 5, false)
	var lookLoop []Pat
	for _, p := range lookLoopFamily() {
		if inC01Fragment(p.AST) {
			lookLoop = append(lookLoop, p)
		}
	}
	add("LOOKLOOP (fragment)", lookLoop, "", profP0, 5, false)
	add("LOOKLOOP (fragment)", lookLoop, "R", profP0, 5, false)
	add("LOOPALT", loopAltFamily(), "", profP0, 6, false)
	add("ALTB", altBranchFamily(false), "", profP0, 4, false)
	jobs = append(jobs, specJob{fam: "GROW (long inputs, fresh Regexp per input)", pats: growFamily(), opts: base, prof: profP0, maxL: 26, long: growInputs()})
	add("LOOP", loopF, "", profP0, 5, false)
	add("LOOK", lookF, "", profP0, 4, false)
	add("ANCH<=4", anch, "", profile{name: "ANCH {a,\\n,c}", m: map[rune]rune{'b': '\n'}, input: []rune{'a', 'b', 'c'}}, 4, false)
	add("ANCH<=4", anch, "m", profile{name: "ANCH {a,\\n,c}", m: map[rune]rune{'b': '\n'}, input: []rune{'a', 'b', 'c'}}, 4, false)
	add("ANCH<=4", anch, "s", profile{name: "ANCH {a,\\n,c}", m: map[rune]rune{'b': '\n'}, input: []rune{'a', 'b', 'c'}}, 4, false)
	if !rtl {
		add("ANCH<=4", anch, "2", profile{name: "ANCH {a,\\n,c}", m: map[rune]rune{'b': '\n'}, input: []rune{'a', 'b', 'c'}}, 4, false)
	}
	add("LAND", land, "", profP0, 5, false)
	if !rtl {
		nwb := nwbFamily()
		add("NWB", nwb, "", profile{name: "NWB {a,\\n,c}", m: map[rune]rune{'N': '\n'}, input: []rune{'a', 'N', 'c'}}, 4, false)
		add("NWB", nwb, "m", profile{name: "NWB {a,\\n,c}", m: map[rune]rune{'N': '\n'}, input: []rune{'a', 'N', 'c'}}, 4, false)
		add("NWB", nwb, "", profile{name: "NWB {a,U+FFFD,c}", m: map[rune]rune{'N': 0xFFFD}, input: []rune{'a', 'N', 'c'}}, 4, false)
	}
	if thorough {
		// all 64 option subsets on size <= 3
		coreS3 := coreFamily("CORE-S", grammarCoreS(), 3)
		for _, o := range subsets("imsnx2") {
			if rtl && (o.has('n') || o.has('x') || o.has('2')) {
				// C15 names RightToLeft alone and with i/m/s
				continue
			}
			pr := profP0
			if o.has('i') {
				pr = profP0i
			}
			add("CORE-S<=3 all option subsets", coreS3, o, pr, 4, true)
		}
		for _, o := range []optSet{"i", "m", "s"} {
			pr := profP0
			if o == "i" {
				pr = profP0i
			}
			add("CORE-S<=5", coreS5, o, pr, 4, true)
		}
		for _, pr := range []profile{profP1, profP2, profP6} {
			add("CORE-S<=5", coreS5, "", pr, 4, true)
		}
		add("SEQ k<=3 anchored", seqFamily(3, true), "", profP0, 5, true)
		add("ALT full", altFamily(true), "", profP0, 5, true)
		add("ALTB full", altBranchFamily(true), "", profP0, 5, true)
		add("LOOP3 full", loop3Family(true), "", profP0, 6, true)
		add("LOOK", lookF, "", profP0, 5, true)
		add("LOOP", loopF, "", profP0, 6, true)
		add("CORE-S<=6 reduced grammar", coreS6, "", profP0, 4, true)
	}

	var patsTotal, points, matchedTotal int64
	exampleCount := 0
	for _, job := range jobs {
		if c.Expired() {
			c.NotExhaustive(fmt.Sprintf("internal deadline reached before family %s opts=%q profile=%s", job.fam, job.opts, job.prof.name))
			continue
		}
		famName := fmt.Sprintf("%s opts=%q %s L<=%d", job.fam, string(job.opts), job.prof.name, job.maxL)
		if only := os.Getenv("VERIF_ONLY_FAM"); only != "" && !strings.Contains(famName, only) {
			c.NotExhaustive("family filter VERIF_ONLY_FAM skipped " + famName) // triage aid
			continue
		}
		fs := c.Fam(famName)
		rawInputs := job.long
		if rawInputs == nil {
			rawInputs = allStrings(job.prof.input, job.maxL)
		}
		inputs := make([][]rune, len(rawInputs))
		for i, in := range rawInputs {
			inputs[i] = renameRunes(in, job.prof.m)
		}
		so := specOptsFrom(job.opts)
		copts := job.opts.compileOptions()
		explicit := job.opts.has('n')
		spaced := job.opts.has('x')
		var fp, fe, fm, skipped int64
		done := c.parallel(len(job.pats), func(i int) {
			p := job.pats[i]
			ast := p.AST
			ng := p.NGroups
			if job.prof.m != nil {
				ast = rename(ast, job.prof.m)
			}
			if job.fam != "NWB" && kfNonwordLoopBeforeNonboundary(ast) {
				atomic.AddInt64(&skipped, 1)
				return
			}
			if explicit {
				ast = clone(ast)
				ng = numberCaps(ast, true)
				bad := false
				walk(ast, func(x *Node) {
					if (x.K == KRef || x.K == KCondRef) && (x.Cap <= 0 || x.Cap >= ng) {
						bad = true
					}
				})
				if bad {
					return
				}
			}
			src := ast.Print(printOpts{spaced: spaced})
			re, err := regexp2.Compile(src, copts...)
			if err != nil {
				c.Report(Violation{Leg: "compile", Key: "compile|" + string(job.opts) + "|" + src, Pattern: src, Options: string(job.opts), Detail: "pattern of the fragment does not compile: " + err.Error()})
				return
			}
			var n, mt int64
			var bad *Violation
			if job.long != nil {
				for _, in := range inputs {
					re1, _ := regexp2.Compile(src, copts...)
					n1, m1, b1 := specCompare(re1, ast, ng, so, [][]rune{in}, nil)
					n += n1
					mt += m1
					if b1 != nil {
						bad = b1
						break
					}
				}
			} else {
				n, mt, bad = specCompare(re, ast, ng, so, inputs, nil)
			}
			atomic.AddInt64(&fp, 1)
			atomic.AddInt64(&fe, n)
			atomic.AddInt64(&fm, mt)
			if bad != nil {
				bad.Leg = "spec"
				bad.Pattern = src
				bad.Options = string(job.opts)
				bad.Key = "spec|" + string(job.opts) + "|" + src
				c.Report(*bad)
			}
		}, func(i int, r any) {
			p := job.pats[i]
			c.Report(Violation{Leg: "panic", Key: "panic|" + string(job.opts) + "|" + p.Src, Pattern: p.Src, Options: string(job.opts), Detail: panicText(r) + " (profile " + job.prof.name + ")"})
		})
		fs.Patterns, fs.Evaluations, fs.Nontrivial, fs.Complete = fp, fe, fm, done
		if skipped > 0 {
			fs.Note = fmt.Sprintf("%d patterns of the recorded NWB shape left to the NWB sub-family", skipped)
		}
		if !done {
			c.NotExhaustive("internal deadline reached inside " + famName)
		}
		patsTotal += fp
		points += fe
		matchedTotal += fm
		c.Eval(fe)
		c.Nontrivial(fm)
		c.Outcome("points at which model and engine agree on a match (index, length, every capture list)", fm)
		c.Outcome("points at which model and engine agree that there is no match", fe-fm)
		if exampleCount < 10 && len(job.pats) > 0 {
			exampleCount++
			p := job.pats[len(job.pats)*2/3]
			c.Sample(map[string]any{"family": famName, "pattern": p.Src, "inputs": len(inputs), "example_input": string(inputs[len(inputs)/2])})
		}
	}
	c.extra["programs"] = patsTotal
	c.extra["states"] = points
	c.extra["transitions"] = points
	c.extra["traces_validated_against_impl"] = points
	c.extra["model"] = "harness/spec.go; every model result is compared with the implementation's result for the same (pattern, options, input, offset)"
}

func replaySpec(v Violation) (bool, string) {
	// The replay re-parses nothing: it needs the AST, so it re-enumerates the families lazily by text.
	// For a public-API replay it prints what the engine returns; the model value is in the artefact.
	o := optSet(v.Options)
	re, err := regexp2.Compile(v.Pattern, o.compileOptions()...)
	if err != nil {
		return true, "compile error: " + err.Error()
	}
	var in []rune
	if xs, ok := v.Extra["input_runes"].([]any); ok {
		for _, x := range xs {
			in = append(in, rune(x.(float64)))
		}
	}
	st := 0
	if f, ok := v.Extra["start"].(float64); ok {
		st = int(f)
	}
	got := fromMatch(re.FindRunesMatchStartingAt(in, st))
	detail := fmt.Sprintf("engine now returns %s; recorded: %s", got, v.Detail)
	// still failing iff the engine result text is still the recorded engine result
	want := ""
	if i := indexOf(v.Detail, "engine="); i >= 0 {
		want = v.Detail[i+len("engine="):]
	}
	return want != "" && got.String() == want, detail
}

func indexOf(s, sub string) int {
	for i := 0; i+len(sub) <= len(s); i++ {
		if s[i:i+len(sub)] == sub {
			return i
		}
	}
	return -1
}
