package main

// C06: the RE2-mode adapter (package compat) agrees with Go's regexp package.
//
// Bounded-exhaustive exploration: every pattern of several finite grammars over the syntax that
// Go's regexp and regexp2's RE2 mode share (quantifiers only on operands that cannot match the
// empty string) x every byte string up to a length bound over a small alphabet of units (ASCII
// letters, newline, a 2-byte rune, the invalid byte 0xFF, the truncated sequence E2 82), presented
// as string, []byte and io.RuneReader x every method of compat.Matcher (FindAll* with every n of a
// menu) x String(). The oracle is Go's regexp package itself: the two results must be deeply equal
// (nil-ness included). A pattern one of the two engines rejects is skipped and counted.
//
// Families (c06Families): CORE (general grammar), ANCH (assertions, newline, m/s flags), NULL (empty
// branches and groups), REP (counted repetition), CLASS (shorthands, POSIX names, \p classes, ranges,
// hex escapes; own alphabet), CASE ((?i) over the orbits a/A, é/É, k/K/KELVIN, s/S/LONG S; own
// alphabet), FLAGS (flags in the middle of a pattern), ESC (escapes and odd spellings, most of them
// there to be rejected and counted), the shared SEQ / ALT / LOOP shapes, and three listed
// sub-families whose members are recorded findings: WB-U (Unicode-aware \b next to é), NEST3
// (three directly nested quantifiers: .NET's repeater multiplication), DIALECT (\Q..\E, (?U),
// duplicate group names: accepted by both engines, documented differently).
//
// Development aids (environment): VERIF_C06_ONLY=<text[,text...]> runs the families whose name contains one
// of the texts (the run is then marked not exhaustive), VERIF_C06_TIMES=1 prints per-family wall time to
// stderr, VERIF_C06_DUMP=<file> appends one line per differing pattern.

import (
	"encoding/base64"
	"fmt"
	"os"
	"reflect"
	"regexp"
	"sort"
	"strings"
	"sync"
	"sync/atomic"
	"time"
	"unicode/utf8"

	"github.com/dlclark/regexp2/v2/compat"
)

func init() {
	register("C06", runC06)
	replayers["C06"] = replayC06
	c06SelfTest()
}

// ---------------------------------------------------------------------------------------------
// pattern trees: the shared Node type plus one private leaf kind printed verbatim

// KRaw is a leaf printed verbatim (Name holds the text). It consumes at least one rune. Neg marks
// a multi-token text that needs (?: ) when it becomes the operand of a quantifier.
const KRaw Kind = 100

func c06Raw(text string) *Node    { return &Node{K: KRaw, Name: text} }
func c06RawSeq(text string) *Node { return &Node{K: KRaw, Name: text, Neg: true} }
func c06Empty() *Node             { return &Node{K: KEmpty} }
func c06Named(k *Node) *Node      { return &Node{K: KCap, Name: "n", Kids: []*Node{k}} }
func c06Opt(on, off string) func(*Node) *Node {
	return func(k *Node) *Node { return &Node{K: KOpt, On: on, Off: off, Kids: []*Node{k}} }
}

func c06Nullable(n *Node) bool {
	switch n.K {
	case KRaw, KLit, KAny, KSet, KShort:
		return false
	case KAssert, KEmpty:
		return true
	case KCat:
		for _, k := range n.Kids {
			if !c06Nullable(k) {
				return false
			}
		}
		return true
	case KAlt:
		for _, k := range n.Kids {
			if c06Nullable(k) {
				return true
			}
		}
		return false
	case KRep:
		return n.Min == 0 || c06Nullable(n.Kids[0])
	case KCap, KGroup, KOpt:
		return c06Nullable(n.Kids[0])
	}
	panic("c06: unexpected node kind")
}

// c06Print prints a tree in the syntax both engines read: (?P<n> ) for named groups, an empty
// alternation branch as nothing.
func c06Print(n *Node) string {
	pr := c06Printer{}
	pr.print(n, 0)
	return pr.sb.String()
}

// c06Printer numbers the named groups n1, n2, ... in order of their opening parenthesis: Go gives
// two groups of the same name two numbers, regexp2 (like .NET) merges them into one group, so
// duplicate names are outside the common syntax.
type c06Printer struct {
	sb    strings.Builder
	named int
}

func (pr *c06Printer) print(n *Node, prec int) {
	sb := &pr.sb
	c06print := func(_ *strings.Builder, n *Node, prec int) { pr.print(n, prec) }
	switch n.K {
	case KLit:
		writeLit(sb, n.Ch)
	case KAny:
		sb.WriteByte('.')
	case KSet:
		sb.WriteByte('[')
		if n.Neg {
			sb.WriteByte('^')
		}
		for _, r := range n.Set {
			if r == '\n' {
				sb.WriteString(`\n`)
			} else {
				sb.WriteRune(r)
			}
		}
		sb.WriteByte(']')
	case KShort:
		sb.WriteByte('\\')
		sb.WriteRune(n.Ch)
	case KAssert:
		if n.Ch == '^' || n.Ch == '$' {
			sb.WriteRune(n.Ch)
		} else {
			sb.WriteByte('\\')
			sb.WriteRune(n.Ch)
		}
	case KEmpty:
	case KRaw:
		sb.WriteString(n.Name)
	case KCat:
		if prec >= 2 {
			sb.WriteString("(?:")
		}
		for _, k := range n.Kids {
			c06print(sb, k, 1)
		}
		if prec >= 2 {
			sb.WriteByte(')')
		}
	case KAlt:
		if prec >= 1 {
			sb.WriteString("(?:")
		}
		for i, k := range n.Kids {
			if i > 0 {
				sb.WriteByte('|')
			}
			c06print(sb, k, 0)
		}
		if prec >= 1 {
			sb.WriteByte(')')
		}
	case KRep:
		k := n.Kids[0]
		if k.K == KRep || k.K == KAssert || k.K == KEmpty || (k.K == KRaw && k.Neg) {
			sb.WriteString("(?:")
			c06print(sb, k, 0)
			sb.WriteByte(')')
		} else {
			c06print(sb, k, 2)
		}
		sb.WriteString(quantText(n.Min, n.Max, n.Lazy))
	case KCap:
		if n.Name != "" {
			pr.named++
			fmt.Fprintf(sb, "(?P<%s%d>", n.Name, pr.named)
		} else {
			sb.WriteByte('(')
		}
		c06print(sb, n.Kids[0], 0)
		sb.WriteByte(')')
	case KGroup:
		sb.WriteString("(?:")
		c06print(sb, n.Kids[0], 0)
		sb.WriteByte(')')
	case KOpt:
		sb.WriteString("(?" + n.On)
		if n.Off != "" {
			sb.WriteString("-" + n.Off)
		}
		sb.WriteByte(':')
		c06print(sb, n.Kids[0], 0)
		sb.WriteByte(')')
	default:
		panic("c06: unexpected node kind")
	}
}

// c06Gram is a finite grammar: leaves, quantifiers (applied to non-nullable operands only: the
// property's quantifier excludes quantified nullable sub-patterns), unary wrappers (groups, inline
// option groups), n-ary concatenation and alternation (an empty leaf only as alternation branch
// or group body).
type c06Gram struct {
	leaves []*Node
	quants []quant
	wraps  []func(*Node) *Node
	// nested: also generate the nested-repeater shapes (c06NestedRepeaters). Off in the main
	// families; the sub-family NESTQ enumerates those shapes on their own.
	nested bool
	memo   map[int][]*Node
}

func c06StripGroups(n *Node) *Node {
	for n.K == KGroup || n.K == KOpt {
		n = n.Kids[0]
	}
	return n
}

// c06RepDepth: number of directly nested quantifiers (through non-capturing groups) at the top of the tree.
func c06RepDepth(n *Node) int {
	d := 0
	for n = c06StripGroups(n); n.K == KRep; n = c06StripGroups(n.Kids[0]) {
		d++
	}
	return d
}

// c06NestedRepeaters recognises the shapes on which regexp2 inherits .NET's multiplication of
// directly nested repeaters ((?:X{a,b}){c,d} is compiled as X{ac,bd} when the ranges allow). The
// rewrite keeps the language but not the backtracking priorities, which shows (1) with three
// directly nested quantifiers ((?:(?:.{1,2}){2})+ becomes .{2,} and matches 5 of "aaaaa", not 4)
// and (2) with two when the inner operand contains a capture group ((?:(.{1,2})+){2} becomes
// (.{1,2}){2,}: other last capture). Property C01 carves the same rewrite out of its fragment.
// The main families skip these shapes; the sub-family NESTQ lists them member by member.
func c06NestedRepeaters(n *Node) bool {
	found := false
	walk(n, func(x *Node) {
		if x.K != KRep {
			return
		}
		switch d := c06RepDepth(x); {
		case d >= 3:
			found = true
		case d == 2:
			if hasKind(c06StripGroups(x.Kids[0]), KCap) {
				found = true
			}
		}
	})
	return found
}

func (g *c06Gram) gen(n int) []*Node {
	if g.memo == nil {
		g.memo = map[int][]*Node{}
	}
	if v, ok := g.memo[n]; ok {
		return v
	}
	var out []*Node
	if n == 1 {
		g.memo[1] = g.leaves
		return g.leaves
	}
	for _, kid := range g.gen(n - 1) {
		if !c06Nullable(kid) && (g.nested || c06RepDepth(kid) < 2) {
			for _, q := range g.quants {
				out = append(out, rep(kid, q.min, q.max, q.lazy))
			}
		}
		for _, w := range g.wraps {
			out = append(out, w(kid))
		}
	}
	for k := 2; k <= n-1; k++ {
		compositions(n-1, k, func(parts []int) {
			var rec func(i int, acc []*Node, kind Kind)
			rec = func(i int, acc []*Node, kind Kind) {
				if i == len(parts) {
					out = append(out, &Node{K: kind, Kids: append([]*Node{}, acc...)})
					return
				}
				for _, c := range g.gen(parts[i]) {
					if c.K == kind || (kind == KCat && c.K == KEmpty) {
						continue // canonical flattening; an empty item in a concatenation prints nothing
					}
					rec(i+1, append(acc, c), kind)
				}
			}
			rec(0, nil, KCat)
			rec(0, nil, KAlt)
		})
	}
	g.memo[n] = out
	return out
}

// leftToSubFamily: the tree has a shape that is enumerated by a listed sub-family instead (NESTQ, NWB).
func (g *c06Gram) leftToSubFamily(t *Node) bool {
	return (!g.nested && c06NestedRepeaters(t)) || kfNonwordLoopBeforeNonboundary(t)
}

// leftOut counts the trees of size lo..hi that the main family leaves to a listed sub-family.
func (g *c06Gram) leftOut(lo, hi int) int {
	k := 0
	for n := lo; n <= hi; n++ {
		for _, t := range g.gen(n) {
			if g.leftToSubFamily(t) {
				k++
			}
		}
	}
	return k
}

type c06Pat struct {
	src string
	wb  bool // contains \b or \B
}

func c06HasWB(n *Node) bool { return hasAssert(n, 'b') || hasAssert(n, 'B') }

// patterns of the grammar up to maxSize, de-duplicated by text, simplest first; prefix is put in
// front of every text (inline flags).
func (g *c06Gram) patterns(maxSize int, prefixes ...string) []c06Pat {
	if len(prefixes) == 0 {
		prefixes = []string{""}
	}
	seen := map[string]bool{}
	var out []c06Pat
	for n := 1; n <= maxSize; n++ {
		for _, t := range g.gen(n) {
			if g.leftToSubFamily(t) {
				continue
			}
			body := c06Print(t)
			wb := c06HasWB(t)
			for _, pf := range prefixes {
				s := pf + body
				if seen[s] {
					continue
				}
				seen[s] = true
				out = append(out, c06Pat{src: s, wb: wb})
			}
		}
	}
	return out
}

func c06Texts(srcs ...string) []c06Pat {
	var out []c06Pat
	seen := map[string]bool{}
	for _, s := range srcs {
		if seen[s] {
			continue
		}
		seen[s] = true
		out = append(out, c06Pat{src: s, wb: strings.Contains(s, `\b`) || strings.Contains(s, `\B`)})
	}
	return out
}

// ---------------------------------------------------------------------------------------------
// the oracle: every method of the adapter against the same method of *regexp.Regexp

var c06Ns = []int{-1, 0, 1, 2, 3}

const c06MethodsPerPoint = 3 + 10 + 8*5

// typed equalities with the semantics of reflect.DeepEqual (nil-ness, length, elements)
func c06eq1[T comparable](a, b []T) bool {
	if (a == nil) != (b == nil) || len(a) != len(b) {
		return false
	}
	for i := range a {
		if a[i] != b[i] {
			return false
		}
	}
	return true
}
func c06eq2[T comparable](a, b [][]T) bool {
	if (a == nil) != (b == nil) || len(a) != len(b) {
		return false
	}
	for i := range a {
		if !c06eq1(a[i], b[i]) {
			return false
		}
	}
	return true
}
func c06eq3[T comparable](a, b [][][]T) bool {
	if (a == nil) != (b == nil) || len(a) != len(b) {
		return false
	}
	for i := range a {
		if !c06eq2(a[i], b[i]) {
			return false
		}
	}
	return true
}

// c06SelfTest pins the typed equalities to reflect.DeepEqual on the cases that matter.
func c06SelfTest() {
	for _, p := range []struct {
		a, b [][]int
	}{{nil, [][]int{}}, {[][]int{}, [][]int{}}, {nil, nil}, {[][]int{{1, 2}}, [][]int{{1, 2}}}, {[][]int{{1, 2}}, [][]int{{1, 3}}}, {[][]int{nil}, [][]int{{}}}} {
		if c06eq2(p.a, p.b) != reflect.DeepEqual(p.a, p.b) {
			panic("c06: typed equality differs from reflect.DeepEqual")
		}
	}
	for _, p := range []struct {
		a, b [][]byte
	}{{nil, [][]byte{}}, {[][]byte{nil}, [][]byte{{}}}, {[][]byte{{}}, [][]byte{{}}}, {[][]byte{{1}}, [][]byte{{1}}}, {[][]byte{{1}}, [][]byte{{2}}}} {
		if c06eq2(p.a, p.b) != reflect.DeepEqual(p.a, p.b) {
			panic("c06: typed equality differs from reflect.DeepEqual")
		}
	}
	if c06eq1([]string(nil), []string{}) || !c06eq1([]string{""}, []string{""}) || c06eq3([][][]byte{{nil}}, [][][]byte{{{}}}) {
		panic("c06: typed equality differs from reflect.DeepEqual")
	}
}

type c06Diff struct {
	Method string `json:"method"`
	N      int    `json:"n"`
	Got    string `json:"got"`
	Want   string `json:"want"`
}

func (d c06Diff) call() string {
	if strings.HasPrefix(d.Method, "FindAll") {
		return fmt.Sprintf("%s(n=%d)", d.Method, d.N)
	}
	return d.Method
}

// c06Point describes one (pattern, input) point, from Go's answers.
type c06Point struct {
	matched, empty, unset, multi, invalid, shifted bool
}

// c06ComparePoint is c06Compare with a panic (the adapter panics on match-time errors; the step
// budget turns a hang into a panic) reported as a difference of its own.
func c06ComparePoint(ad *compat.Regexp, std *regexp.Regexp, s string, b []byte) (diffs []c06Diff, pt c06Point) {
	defer func() {
		if r := recover(); r != nil {
			diffs = append(diffs, c06Diff{Method: "(panic)", Got: panicText(r), Want: "no panic"})
		}
	}()
	return c06Compare(ad, std, s, b)
}

// c06Compare calls every method of both implementations on one input and returns the differing ones.
func c06Compare(ad *compat.Regexp, std *regexp.Regexp, s string, b []byte) (diffs []c06Diff, pt c06Point) {
	add := func(m string, n int, got, want any) {
		if reflect.DeepEqual(got, want) {
			panic("c06: typed equality differs from reflect.DeepEqual in " + m)
		}
		diffs = append(diffs, c06Diff{m, n, fmt.Sprintf("%#v", got), fmt.Sprintf("%#v", want)})
	}
	rd := func() *strings.Reader { return strings.NewReader(s) }

	if g, w := ad.Match(b), std.Match(b); g != w {
		add("Match", 0, g, w)
	}
	if g, w := ad.MatchString(s), std.MatchString(s); g != w {
		add("MatchString", 0, g, w)
	}
	if g, w := ad.MatchReader(rd()), std.MatchReader(rd()); g != w {
		add("MatchReader", 0, g, w)
	}

	if g, w := ad.Find(b), std.Find(b); !c06eq1(g, w) {
		add("Find", 0, g, w)
	}
	if g, w := ad.FindIndex(b), std.FindIndex(b); !c06eq1(g, w) {
		add("FindIndex", 0, g, w)
	}
	if g, w := ad.FindString(s), std.FindString(s); g != w {
		add("FindString", 0, g, w)
	}
	if g, w := ad.FindStringIndex(s), std.FindStringIndex(s); !c06eq1(g, w) {
		add("FindStringIndex", 0, g, w)
	}
	if g, w := ad.FindReaderIndex(rd()), std.FindReaderIndex(rd()); !c06eq1(g, w) {
		add("FindReaderIndex", 0, g, w)
	}
	if g, w := ad.FindSubmatch(b), std.FindSubmatch(b); !c06eq2(g, w) {
		add("FindSubmatch", 0, g, w)
	}
	gsi, wsi := ad.FindSubmatchIndex(b), std.FindSubmatchIndex(b)
	if !c06eq1(gsi, wsi) {
		add("FindSubmatchIndex", 0, gsi, wsi)
	}
	if g, w := ad.FindStringSubmatch(s), std.FindStringSubmatch(s); !c06eq1(g, w) {
		add("FindStringSubmatch", 0, g, w)
	}
	if g, w := ad.FindStringSubmatchIndex(s), std.FindStringSubmatchIndex(s); !c06eq1(g, w) {
		add("FindStringSubmatchIndex", 0, g, w)
	}
	if g, w := ad.FindReaderSubmatchIndex(rd()), std.FindReaderSubmatchIndex(rd()); !c06eq1(g, w) {
		add("FindReaderSubmatchIndex", 0, g, w)
	}

	for _, n := range c06Ns {
		if g, w := ad.FindAll(b, n), std.FindAll(b, n); !c06eq2(g, w) {
			add("FindAll", n, g, w)
		}
		g, w := ad.FindAllIndex(b, n), std.FindAllIndex(b, n)
		if !c06eq2(g, w) {
			add("FindAllIndex", n, g, w)
		}
		if n == -1 && len(w) >= 2 {
			pt.multi = true
		}
		if g, w := ad.FindAllString(s, n), std.FindAllString(s, n); !c06eq1(g, w) {
			add("FindAllString", n, g, w)
		}
		if g, w := ad.FindAllStringIndex(s, n), std.FindAllStringIndex(s, n); !c06eq2(g, w) {
			add("FindAllStringIndex", n, g, w)
		}
		if g, w := ad.FindAllStringSubmatch(s, n), std.FindAllStringSubmatch(s, n); !c06eq2(g, w) {
			add("FindAllStringSubmatch", n, g, w)
		}
		if g, w := ad.FindAllStringSubmatchIndex(s, n), std.FindAllStringSubmatchIndex(s, n); !c06eq2(g, w) {
			add("FindAllStringSubmatchIndex", n, g, w)
		}
		if g, w := ad.FindAllSubmatch(b, n), std.FindAllSubmatch(b, n); !c06eq3(g, w) {
			add("FindAllSubmatch", n, g, w)
		}
		if g, w := ad.FindAllSubmatchIndex(b, n), std.FindAllSubmatchIndex(b, n); !c06eq2(g, w) {
			add("FindAllSubmatchIndex", n, g, w)
		}
	}
	if string(b) != s {
		add("(input []byte modified by a call)", 0, string(b), s)
	}

	if wsi != nil {
		pt.matched = true
		pt.empty = wsi[0] == wsi[1]
		for i := 2; i < len(wsi); i += 2 {
			if wsi[i] < 0 {
				pt.unset = true
			}
		}
		if wsi[0] > 0 && utf8.RuneCountInString(s[:wsi[0]]) != wsi[0] {
			pt.shifted = true
		}
		if !utf8.ValidString(s[wsi[0]:wsi[1]]) {
			pt.invalid = true
		}
	}
	return
}

// ---------------------------------------------------------------------------------------------
// families

type c06In struct {
	s string
	b []byte
}

func c06Inputs(units []string, maxLen int) []c06In {
	ss := allByteStrings(units, maxLen)
	out := make([]c06In, len(ss))
	for i, s := range ss {
		out[i] = c06In{s, []byte(s)}
	}
	return out
}

type c06Family struct {
	name  string
	leg   string // key prefix ("api" unless the family is a listed sub-family)
	pats  []c06Pat
	units []string // input units
	maxL  int
	// wbUnits, when set, replaces units for patterns that contain \b or \B (design: the word
	// boundary is Unicode-aware in regexp2 and ASCII in Go; the sub-family WB-U lists that
	// difference member by member, everything else runs \b on ASCII / invalid bytes only)
	wbUnits []string
	// onlyWith: evaluate only inputs that contain this substring (WB-U: inputs with é)
	onlyWith string
	// leftOut: generated trees of a recorded shape that this family leaves to a listed sub-family
	leftOut int
}

type c06Stats struct {
	both, goRejects, adRejects, bothReject, ordered, leftOut atomic.Int64
	points, matched, empty, unset, multi, invalid, shifted   atomic.Int64
	mu                                                       sync.Mutex
	adRejectKinds                                            map[string][]string // adapter error text -> first patterns
	adRejectCount                                            map[string]int64
	violMethods                                              map[string]int64
}

func c06ErrKind(err error, src string) string {
	s := strings.ReplaceAll(err.Error(), src, "P")
	if len(s) > 100 {
		s = s[:100]
	}
	return s
}

func c06Key(leg, opts, src string) string { return leg + "|" + opts + "|" + src }

// c06Options: RE2; plus MaintainCaptureOrder for patterns that mix named and unnamed groups. Go
// numbers groups in pattern order; regexp2 documents that it numbers unnamed groups first unless
// that compile option is given, so for such patterns the option is part of "the same pattern".
func c06Options(std *regexp.Regexp) optSet {
	named, unnamed := false, false
	for _, n := range std.SubexpNames()[1:] {
		if n == "" {
			unnamed = true
		} else {
			named = true
		}
	}
	if named && unnamed {
		return "2O"
	}
	return "2"
}

func c06Compile(src string) (std *regexp.Regexp, ad *compat.Regexp, opts optSet, gerr, aerr error) {
	std, gerr = regexp.Compile(src)
	opts = "2"
	if gerr == nil {
		opts = c06Options(std)
	}
	ad, aerr = compat.Compile(src, opts.compileOptions()...)
	return
}

func (c *Ctx) c06Run(f *c06Family, st *c06Stats) {
	leg := f.leg
	if leg == "" {
		leg = "api"
	}
	famName := fmt.Sprintf("%s L<=%d", f.name, f.maxL)
	if c.Expired() {
		c.NotExhaustive("internal deadline reached before " + famName)
		return
	}
	fs := c.Fam(famName)
	filter := func(in []c06In) []c06In {
		if f.onlyWith == "" {
			return in
		}
		var out []c06In
		for _, x := range in {
			if strings.Contains(x.s, f.onlyWith) {
				out = append(out, x)
			}
		}
		return out
	}
	inputs := filter(c06Inputs(f.units, f.maxL))
	wbInputs := inputs
	if f.wbUnits != nil {
		wbInputs = filter(c06Inputs(f.wbUnits, f.maxL))
	}
	fs.Note = fmt.Sprintf("enumerated=%d units=%q inputs/pattern=%d", len(f.pats), f.units, len(inputs))
	if f.wbUnits != nil {
		fs.Note += fmt.Sprintf(" (patterns with \\b or \\B: units=%q inputs=%d)", f.wbUnits, len(wbInputs))
	}
	if f.leftOut > 0 {
		fs.Note += fmt.Sprintf("; %d generated trees of a recorded shape left to the sub-families NESTQ / NWB", f.leftOut)
		st.leftOut.Add(int64(f.leftOut))
	}
	t0 := time.Now()
	var fp, fe, fn atomic.Int64
	var once sync.Once
	done := c.parallel(len(f.pats), func(i int) {
		p := f.pats[i]
		std, ad, opts, gerr, aerr := c06Compile(p.src)
		switch {
		case gerr != nil && aerr != nil:
			st.bothReject.Add(1)
			return
		case gerr != nil:
			st.goRejects.Add(1)
			return
		case aerr != nil:
			st.adRejects.Add(1)
			k := c06ErrKind(aerr, p.src)
			st.mu.Lock()
			st.adRejectCount[k]++
			if len(st.adRejectKinds[k]) < 6 {
				st.adRejectKinds[k] = append(st.adRejectKinds[k], p.src)
			}
			st.mu.Unlock()
			return
		}
		st.both.Add(1)
		if opts != "2" {
			st.ordered.Add(1)
		}
		fp.Add(1)
		if g, w := ad.String(), std.String(); g != w {
			c.Report(Violation{Leg: leg, Key: c06Key(leg, string(opts), p.src), Pattern: p.src, Options: string(opts), Detail: fmt.Sprintf("String() = %q, Go: %q", g, w), Extra: map[string]any{"input_bytes": []byte{}}})
			return
		}
		ins := inputs
		if p.wb {
			ins = wbInputs
		}
		var n, nt int64
		defer func() {
			fe.Add(n)
			fn.Add(nt)
		}()
		for k := range ins {
			in := &ins[k]
			n++
			diffs, pt := c06ComparePoint(ad, std, in.s, in.b)
			if pt.matched {
				nt++
				st.matched.Add(1)
				if pt.empty {
					st.empty.Add(1)
				}
				if pt.unset {
					st.unset.Add(1)
				}
				if pt.multi {
					st.multi.Add(1)
				}
				if pt.invalid {
					st.invalid.Add(1)
				}
				if pt.shifted {
					st.shifted.Add(1)
				}
			}
			if len(diffs) > 0 {
				st.mu.Lock()
				for _, d := range diffs {
					st.violMethods[d.call()]++
				}
				st.mu.Unlock()
				v := c06Violation(leg, string(opts), p.src, in.s, diffs)
				if dump := os.Getenv("VERIF_C06_DUMP"); dump != "" { // development aid: every differing pattern, one line each
					st.mu.Lock()
					if fh, err := os.OpenFile(dump, os.O_APPEND|os.O_CREATE|os.O_WRONLY, 0o644); err == nil {
						fmt.Fprintf(fh, "%s\t%s\t%s\t%s\n", f.name, v.Key, v.Input, v.Detail)
						fh.Close()
					}
					st.mu.Unlock()
				}
				c.Report(v)
				return
			}
		}
		if i == len(f.pats)*2/3 {
			once.Do(func() {
				c.Sample(map[string]any{"family": famName, "pattern": p.src, "options": string(opts), "inputs": len(ins), "example_input": q(ins[len(ins)/2].s), "call_pairs_per_input": c06MethodsPerPoint})
			})
		}
	}, func(i int, r any) {
		p := f.pats[i]
		c.Report(Violation{Leg: "panic", Key: c06Key("panic", "2", p.src), Pattern: p.src, Options: "2", Detail: panicText(r) + " (family " + f.name + ")"})
	})
	fs.Patterns, fs.Evaluations, fs.Nontrivial, fs.Complete = fp.Load(), fe.Load(), fn.Load(), done
	if !done {
		c.NotExhaustive("internal deadline reached inside " + famName)
	}
	st.points.Add(fe.Load())
	c.Eval(fe.Load())
	c.Nontrivial(fn.Load())
	if os.Getenv("VERIF_C06_TIMES") != "" {
		fmt.Fprintf(os.Stderr, "c06: %-28s %7d patterns %10d points %6.1fs\n", famName, fp.Load(), fe.Load(), time.Since(t0).Seconds())
	}
}

func c06Violation(leg, opts, src, in string, diffs []c06Diff) Violation {
	d := diffs[0]
	var others []string
	for _, x := range diffs[1:] {
		others = append(others, x.call())
	}
	detail := fmt.Sprintf("%s = %s, Go's regexp: %s", d.call(), d.Got, d.Want)
	if len(others) > 0 {
		if len(others) > 12 {
			others = append(others[:12], fmt.Sprintf("... %d more", len(others)-12))
		}
		detail += "; also differing on this input: " + strings.Join(others, ", ")
	}
	return Violation{Leg: leg, Key: c06Key(leg, opts, src), Pattern: src, Options: opts, Input: q(in), Detail: detail,
		Extra: map[string]any{"input_bytes": []byte(in), "method": d.Method, "n": d.N, "differing_calls": len(diffs)}}
}

// ---------------------------------------------------------------------------------------------
// the check

var (
	c06Units   = []string{"a", "b", "\n", "é", "\xff", "\xe2\x82"}
	c06UnitsWB = []string{"a", "b", "\n", "\xff", "\xe2\x82"} // no non-ASCII word character
	// class family: letters of both cases, digit, blank, underscore, punctuation, newline, vertical tab (in .NET's \\s, not in RE2's), Latin-1 and Greek letters, invalid byte
	c06UnitsClass = []string{"a", "Z", "5", " ", "_", "-", "\n", "\v", "é", "Ω", "\xff", "٣"}
	// case family: the fold orbits {a A}, {é É}, {k K U+212A KELVIN SIGN}, {s S U+017F LONG S}
	c06UnitsCase = []string{"a", "A", "é", "É", "k", "K", "K", "s", "S", "ſ"}
	// escape family
	c06UnitsEsc = []string{"a", "b", ".", "Q", "\\", "{", "\n", "\t", "\x00", "\U0010ffff"}
)

// the ten members of the sub-family WB-U (design section 4, C06 notes)
var c06WBU = []string{`\b`, `\B`, `a\b`, `\ba`, `.\b`, `\b.`, `a\B`, `\Ba`, `.\B`, `\B.`}

// class atoms of the common syntax (each matches exactly one rune)
var c06ClassAtoms = []string{
	`\d`, `\D`, `\w`, `\W`, `\s`, `\S`, `[\d\s]`, `[^\w]`, `[\D]`, `[\W\d]`, `[^\W]`, `[\s_]`,
	`[[:alpha:]]`, `[[:^alpha:]]`, `[^[:alpha:]]`, `[[:digit:]]`, `[[:space:]]`, `[[:upper:]]`, `[[:lower:]]`, `[[:punct:]]`, `[[:word:]]`,
	`[[:alnum:]]`, `[[:blank:]]`, `[[:cntrl:]]`, `[[:graph:]]`, `[[:print:]]`, `[[:xdigit:]]`, `[[:ascii:]]`, `[[:^ascii:]]`, `[[:alpha:]5]`, `[[:upper:][:digit:]]`,
	`[^\n]`, `[a-z]`, `[^a-z]`, `[A-Za-z]`, `[0-9_]`, `[a\-z]`, `[a-]`, `[-a]`, `[]a]`, `[^]a]`, `[a\]]`, `[\n-a]`,
	`\pL`, `\PL`, `\p{L}`, `\p{Lu}`, `\P{Lu}`, `\p{Ll}`, `\pN`, `\pZ`, `\pP`, `\p{Nd}`, `[\p{Lu}5]`, `[^\pL]`, `[\PL]`, `\p{^Lu}`, `\P{^Lu}`,
	`\p{Greek}`, `\P{Greek}`, `\p{Latin}`, `[\p{Greek}a]`, `[^\p{Greek}]`,
	`é`, `[é]`, `[^é]`, `[a-é]`, `Ω`, `[α-ω]`, `[Α-Ω]`, `\x{e9}`, `\xe9`, `\x{3a9}`, `[\x{e9}]`, `[\x61-\x7a]`, `\x5f`, `\_`, `\-`, `\ `,
}

// escapes and odd spellings (escape family)
var c06EscTexts = []string{
	`\x61`, `\x{61}`, `\x{10FFFF}`, `\x{10ffff}+`, `\x00`, `\x{0}`, `\141`, `\101`, `\0`, `\07`, `\012`, `\12`, `\11`,
	`\a`, `\f`, `\t`, `\n`, `\r`, `\v`, `[\a\f\t\n\r\v]`, `[\t-\n]`,
	`\*`, `\.`, `\\`, `\^`, `\$`, `\{`, `\}`, `\[`, `\]`, `\(`, `\)`, `\|`, `\+`, `\?`, `\/`, `\"`, `\'`, `\<`, `\>`, `\=`, `\!`, `\,`, `\:`, `\;`, `\@`, `\#`, `\%`, `\&`, `\~`, "\\`",
	`[.]`, `[\.]`, `[\\]`, `[{]`, `[*+?]`, `[|]`, `[(]`, `[)]`, `[$]`, `[\^]`, `[a^]`, `[.-Q]`,
	`{`, `a{`, `a{,2}`, `a{1`, `a{1,`, `a{,}`, `a{a}`, `{1}`, `a{1}{`, `}`, `a}`, `]`, `a]`,
	`\E`, `Q`,
	`\C`, `\Z`, `\G`, `\1`, `(a)\1`, `\k<n>`, `(?P=n)`, `(?#c)a`, `(?>a)`, `(?=a)`, `(?!a)`, `(?<=a)b`, `(?<!a)b`, `a++`, `a*+`, `a**`, `a+*`, `a??`, `a???`, `a{2}{3}`, `a{2}*`, `a*{2}`, `(?<n>a)`, `(?'n'a)`, `(?P<n>a)`, `(?P<1>a)`, `(?P<a-b>a)`,
	`(?x)a b`, `(?x: a )b`, `(?n)(a)`, `(?i)`, `(?i`, `(?)`, `(?:`, `(`, `)`, `()`, `(?:)`, `(?i:)`, `(?i)(?:)`, `a|*`, `*`, `+a`, `?`, `|`, `a||b`, `[]`, `[^]`, `[a`, `[z-a]`, `[a-\d]`, `[\d-a]`,
	`\pX`, `\p{Foo}`, `\p{IsGreek}`, `\p{L`, `\p`, `[[:foo:]]`, `[[:alpha:]`, `[[:alpha]]`, `[:alpha:]`, `\x{110000}`, `\x{}`, `\x`, `\xg`, `\x{61`, `a`, `\cA`, `\e`, `\8`, `\_`, `\é`, `\h`, `\R`, `\X`, `\N`, `\K`,
}

// DIALECT: spellings both engines accept but document differently; regexp2's RE2 option adds to the
// .NET dialect and takes nothing away. \Q..\E is not a quoting construct there (\Q is a literal Q
// by the "unknown escapes are literals" rule of RE2 mode), (?U) is not the ungreedy flag, and two
// groups of one name are one group. Listed one by one so that each difference is a recorded finding
// and nothing else hides behind it.
var c06DialectTexts = []string{
	`\Qa.b\E`, `\Q.\E`, `\Q.\E+`, `\Qa`, `a\Q\Eb`, `\Q\\E`, `\Q`, `\Q{\E`,
	`(?U)a+`, `(?U)a+?`, `(?U:a*)b`, `(?-U)a`,
	`(?P<n>a)(?P<n>b)`,
}

// inline flags in the middle of a pattern
var c06FlagTexts = []string{
	`(?i)a`, `(?i)é`, `a(?i)b`, `a(?i)b|a`, `(a(?i)b)a`, `(?i)a(?-i)b`, `((?i)a)b`, `(?i:a)b`, `(?i:a|b)b`, `(?i:a)|b`, `(?i)(?-i:a)b`, `(?i)a|(?-i)b`, `(?i)[ab]`, `(?i)[^a]`, `(?i)[^a]b`, `(?-i)a`,
	`(?s).`, `(?s:.)b`, `(?s).(?-s).`, `(?s-i:.a)`, `(?i-s:a.)`, `(?is:a.)`, `(?s:.)(?i:a)`, `a(?s).`, `(?s)[^a]`, `(?-s).`, `(?s)(?-s:.).`,
	`(?m)^a$`, `(?m:^a$)`, `(?m:^)a`, `a(?m:$)`, `(?m)^`, `(?m)$`, `(?m)^$`, `(?m:^a$)|b$`, `(?m)a$|^b`, `^a(?m)$`, `(?m)^(?-m)a$`, `(?m)\Aa$`, `(?m)a\z`, `(?ms)^.$`, `(?ms:^.$)`, `(?m)(?s).$`, `(?m-s:a$.)`, `(?sm-i)^a.$`,
	`(?i)(?m)^a$`, `(?im)^a$`, `(?ims)^a.$`, `(?i)(?s:.)(?m:$)`, `(?m)(^a$)+`, `(?m)(?:^a$\n)+`, `(?m)(^|a)+?$`, `(?s)(.)+?$`,
}

func c06Families(thorough bool) []*c06Family {
	var fams []*c06Family
	add := func(f *c06Family) { fams = append(fams, f) }
	pick := func(q, t int) int {
		if thorough {
			return t
		}
		return q
	}
	groups := []func(*Node) *Node{capg, c06Named}

	// CORE: literals, dot, classes, line anchors, capturing / named / non-capturing groups,
	// alternation, all quantifiers.
	core := &c06Gram{leaves: []*Node{lit('a'), lit('b'), anyc(), set(false, 'a', 'b'), set(true, 'a'), asrt('^'), asrt('$')}, quants: quantsAll, wraps: groups}
	add(&c06Family{name: "CORE size<=3", pats: core.patterns(3), units: c06Units, maxL: pick(4, 5), leftOut: core.leftOut(1, 3)})
	add(&c06Family{name: "CORE size=4", pats: c06OnlySize(core, 4), units: c06Units, maxL: pick(2, 4), leftOut: core.leftOut(4, 4)})
	if thorough {
		add(&c06Family{name: "CORE size=5", pats: c06OnlySize(core, 5), units: c06Units, maxL: 2, leftOut: core.leftOut(5, 5)})
	}

	// WIDTH: the small CORE patterns over units of every byte width: 1, 2, 3 (a valid U+FFFD, which
	// decodes to the same rune as an invalid byte), 4 (astral), an invalid byte, a truncated 4-byte sequence.
	add(&c06Family{name: fmt.Sprintf("WIDTH CORE size<=%d", pick(2, 3)), pats: core.patterns(pick(2, 3)), units: []string{"a", "é", "\ufffd", "\U00010437", "\xff", "\xf0\x90\x90"}, maxL: 4})

	// ANCH: every assertion of the common syntax, newline as pattern letter, (?m: ) (?s: ) groups, (?m) (?s) prefixes.
	anch := &c06Gram{leaves: []*Node{lit('a'), lit('\n'), anyc(), set(true, '\n'), lit('é'), asrt('^'), asrt('$'), asrt('A'), asrt('z'), asrt('b'), asrt('B')},
		quants: []quant{{0, -1, false}, {1, -1, false}, {0, 1, false}, {0, -1, true}, {1, 2, false}},
		wraps:  []func(*Node) *Node{capg, c06Opt("m", ""), c06Opt("s", "")}}
	add(&c06Family{name: "ANCH size<=3", pats: anch.patterns(3, "", "(?m)", "(?s)", "(?ms)"), units: c06Units, wbUnits: c06UnitsWB, maxL: pick(3, 4), leftOut: anch.leftOut(1, 3)})
	if thorough {
		add(&c06Family{name: "ANCH size=4", pats: c06OnlySize(anch, 4, "", "(?m)", "(?s)"), units: c06Units, wbUnits: c06UnitsWB, maxL: 3, leftOut: anch.leftOut(4, 4)})
	}

	// NULL: empty alternation branches and empty groups (nullable, but never under a quantifier).
	null := &c06Gram{leaves: []*Node{lit('a'), lit('b'), c06Empty(), asrt('$')}, quants: []quant{{0, -1, false}, {1, -1, false}, {0, 1, false}, {1, -1, true}, {0, 1, true}, {2, 2, false}}, wraps: groups[:1]}
	add(&c06Family{name: fmt.Sprintf("NULL size<=%d", pick(4, 5)), pats: null.patterns(pick(4, 5)), units: c06Units, maxL: pick(3, 4)})

	// REP: counted repetition {n}, {n,}, {n,m}, greedy and lazy, on non-nullable operands.
	add(&c06Family{name: "REP", pats: c06RepFamily(), units: c06Units, maxL: pick(3, 4)})

	// CLASS: class atoms (shorthands, POSIX names, ranges, \p classes, hex escapes) in small contexts.
	var atoms []*Node
	for _, a := range c06ClassAtoms {
		atoms = append(atoms, c06Raw(a))
	}
	class := &c06Gram{leaves: atoms, quants: []quant{{1, -1, false}, {0, -1, true}, {0, 1, false}}, wraps: groups[:1]}
	add(&c06Family{name: "CLASS size=1", pats: class.patterns(1, "", "(?i)"), units: c06UnitsClass, maxL: pick(3, 4)})
	add(&c06Family{name: "CLASS size=2", pats: c06OnlySize(class, 2, "", "(?i)"), units: c06UnitsClass, maxL: pick(2, 4)})
	if thorough {
		add(&c06Family{name: "CLASS size=3", pats: c06OnlySize(class, 3), units: c06UnitsClass, maxL: 2})
	}

	// CASE: (?i) over the fold orbits of a, é, k (with the Kelvin sign) and s (with the long s).
	cs := &c06Gram{leaves: []*Node{lit('a'), lit('é'), lit('É'), lit('k'), lit('K'), lit('K'), lit('s'), lit('ſ'), set(false, 'k'), set(true, 'k'), set(false, 's'), set(true, 'é'),
		c06Raw(`[a-z]`), c06Raw(`[^a-z]`), c06Raw(`[A-Z]`), c06Raw(`[j-l]`), c06Raw(`\w`), c06Raw(`\W`), c06Raw(`[[:lower:]]`), c06Raw(`[[:upper:]]`), c06Raw(`\p{Lu}`), c06Raw(`\p{Ll}`), c06Raw(`[^\p{Lu}]`),
		c06Raw(`[\W]`), c06Raw(`[^\w]`), c06Raw(`[^\W]`), c06Raw(`[\W\d]`), c06Raw(`[[:^word:]]`), c06Raw(`[[:^alpha:]]`), c06Raw(`[^[:alpha:]]`), c06Raw(`[[:^upper:]]`), c06Raw(`[[:^lower:]]`), c06Raw(`[[:^alnum:]]`), c06Raw(`[[:^ascii:]]`), c06Raw(`[[:^xdigit:]]`),
		c06Raw(`[\x{80}-\x{10FFFF}]`), c06Raw(`[^\x{212a}]`), c06Raw(`\x{17f}`), c06Raw(`\D`), c06Raw(`\S`)},
		quants: []quant{{1, -1, false}, {0, -1, true}}, wraps: []func(*Node) *Node{capg, c06Opt("i", ""), c06Opt("", "i")}}
	add(&c06Family{name: "CASE size<=2", pats: cs.patterns(2, "", "(?i)"), units: c06UnitsCase, maxL: pick(3, 3)})
	add(&c06Family{name: "CASE size=3", pats: c06OnlySize(cs, 3, "(?i)"), units: c06UnitsCase, maxL: pick(2, 3)})

	// FLAGS: inline flags in the middle of a pattern (hand-listed spellings, each run completely).
	add(&c06Family{name: "FLAGS", pats: c06Texts(c06FlagTexts...), units: c06Units, maxL: pick(4, 5)})
	add(&c06Family{name: "FLAGS case", pats: c06Texts(c06FlagTexts[:16]...), units: []string{"a", "A", "b", "B", "é", "É"}, maxL: pick(4, 4)})

	// ESC: escapes and odd spellings; most of the menu is there to be rejected by one side and counted.
	add(&c06Family{name: "ESC", pats: c06Texts(c06EscTexts...), units: c06UnitsEsc, maxL: pick(3, 4)})

	add(&c06Family{name: "DIALECT", leg: "DIALECT", pats: c06Texts(c06DialectTexts...), units: c06UnitsEsc, maxL: pick(3, 4)})

	// the shared shape families (gen.go); members with (?> ) or \G are rejected by Go and counted
	seq2 := c06FromPats(seqFamily(2, false))
	add(&c06Family{name: "SEQ k<=2", pats: seq2, units: c06Units, maxL: pick(3, 4)})
	if thorough {
		add(&c06Family{name: "SEQ k=3", pats: c06Minus(c06FromPats(seqFamily(3, false)), seq2), units: c06Units, maxL: 3})
		add(&c06Family{name: "ALT", pats: c06FromPats(altFamily(false)), units: c06Units, maxL: 3})
		add(&c06Family{name: "LOOP", pats: c06FromPats(loopFamily(false)), units: c06Units, maxL: 3})
	}

	// NESTQ: the nested-repeater shapes (c06NestedRepeaters), every member on unary inputs up to
	// a^12 (a^16) and on every input over {a, b} up to the bound.
	var nq []*Node
	n3 := &c06Gram{leaves: []*Node{lit('a'), anyc()}, quants: quantsAll, nested: true}
	for _, t := range n3.gen(4) {
		if c06RepDepth(t) == 3 {
			nq = append(nq, t)
		}
	}
	for _, x := range []*Node{lit('a'), anyc()} {
		for _, g := range groups {
			bodies := []*Node{g(x)}
			for _, q0 := range quantsAll {
				if q0.min > 0 {
					bodies = append(bodies, g(rep(x, q0.min, q0.max, q0.lazy)))
				}
			}
			for _, b := range bodies {
				for _, q1 := range quantsAll {
					if q1.min == 0 {
						continue
					}
					for _, q2 := range quantsAll {
						nq = append(nq, rep(rep(b, q1.min, q1.max, q1.lazy), q2.min, q2.max, q2.lazy))
					}
				}
			}
		}
	}
	var nqPats []c06Pat
	for _, t := range nq {
		nqPats = append(nqPats, c06Pat{src: c06Print(t)})
	}
	add(&c06Family{name: "NESTQ a^n", leg: "NESTQ", pats: nqPats, units: []string{"a"}, maxL: pick(12, 16)})
	add(&c06Family{name: "NESTQ", leg: "NESTQ", pats: nqPats, units: []string{"a", "b"}, maxL: pick(5, 7)})

	// NWB: a greedy loop with a positive minimum over a non-word character followed by \B: the engine
	// makes the loop atomic (rule inherited from .NET, pinned by the repository's own tests; recorded
	// finding of C01/C05). The main families skip the shape (kfNonwordLoopBeforeNonboundary); these are
	// its listed members with newline as the non-word character.
	var nwb []c06Pat
	for _, p := range nwbFamily() {
		nwb = append(nwb, c06Pat{src: c06Print(rename(p.AST, map[rune]rune{'N': '\n'})), wb: true})
	}
	add(&c06Family{name: "NWB", leg: "NWB", pats: nwb, units: c06UnitsWB, maxL: 5})

	// WB-U: the listed word-boundary patterns on inputs that contain é.
	add(&c06Family{name: "WB-U", leg: "WB-U", pats: c06Texts(c06WBU...), units: c06Units, maxL: pick(4, 5), onlyWith: "é"})
	// the listed sub-families are small: run them first, so that an internal deadline never hides them
	sort.SliceStable(fams, func(i, j int) bool { return fams[i].leg != "" && fams[j].leg == "" })
	return fams
}

func c06Minus(a, b []c06Pat) []c06Pat {
	drop := map[string]bool{}
	for _, p := range b {
		drop[p.src] = true
	}
	var out []c06Pat
	for _, p := range a {
		if !drop[p.src] {
			out = append(out, p)
		}
	}
	return out
}

func c06FromPats(ps []Pat) []c06Pat {
	out := make([]c06Pat, 0, len(ps))
	for _, p := range ps {
		if strings.Contains(p.Src, "(?>") {
			continue // not RE2 syntax
		}
		out = append(out, c06Pat{src: p.Src, wb: p.AST != nil && c06HasWB(p.AST)})
	}
	return out
}

// c06RepFamily: operand{n,m} suffix, every 0 <= n <= m <= 3, {n,}, {n}, lazy forms.
func c06RepFamily() []c06Pat {
	ops := []*Node{lit('a'), anyc(), set(false, 'a', 'b'), lit('é'), capg(lit('a')), capg(alt(lit('a'), lit('b'))), c06Named(anyc()), cat(lit('a'), lit('b')), alt(lit('a'), cat(lit('a'), lit('b'))), capg(rep(lit('a'), 1, -1, false)), capg(rep(anyc(), 0, 1, true))}
	sufs := []*Node{nil, lit('a'), lit('b'), asrt('$'), anyc()}
	var out []c06Pat
	seen := map[string]bool{}
	for _, op := range ops {
		if c06Nullable(op) {
			continue
		}
		for min := 0; min <= 3; min++ {
			for max := -1; max <= 3; max++ {
				if max != -1 && max < min {
					continue
				}
				for _, lazy := range []bool{false, true} {
					for _, sf := range sufs {
						for _, pre := range []*Node{nil, lit('b')} {
							t := cat(pre, rep(op, min, max, lazy), sf)
							s := c06Print(t)
							if !seen[s] {
								seen[s] = true
								out = append(out, c06Pat{src: s})
							}
						}
					}
				}
			}
		}
	}
	return out
}

// c06OnlySize: the patterns of exactly the given size that are not already printed by a smaller tree.
func c06OnlySize(g *c06Gram, n int, prefixes ...string) []c06Pat {
	small := map[string]bool{}
	for _, p := range g.patterns(n-1, prefixes...) {
		small[p.src] = true
	}
	var out []c06Pat
	for _, p := range g.patterns(n, prefixes...) {
		if !small[p.src] {
			out = append(out, p)
		}
	}
	return out
}

func runC06(c *Ctx) {
	c.Level = "model_checking" // an executable reference implementation (Go's regexp) is compared on every point
	thorough := c.Tier == "thorough"
	if thorough {
		c.SetBudget(30 * time.Minute)
	} else {
		c.SetBudget(300 * time.Second)
	}
	c.Rule = "for every enumerated pattern that both regexp.Compile(p) and compat.Compile(p, regexp2.RE2) accept (RE2 + OptionMaintainCaptureOrder when named and unnamed groups are mixed) and every input byte string up to the bound: String() and all 21 methods of compat.Matcher (Match, MatchString, MatchReader, the 10 Find* methods, the 8 FindAll* methods with every n in {-1,0,1,2,3}; string, []byte and io.RuneReader forms) return values deeply equal (reflect.DeepEqual semantics: nil-ness, byte offsets, -1 pairs, nil []byte for unset groups) to those of *regexp.Regexp. Evaluation = one (pattern, input) point with all 53 call pairs; non-trivial = points where Go reports a match."
	c.Assume("the adapter has no NumSubexp/SubexpNames/SubexpIndex/LiteralPrefix/Replace*/Expand/Split methods; group counts are compared through the length of the Submatch results")
	c.Assume("patterns containing \\b or \\B are run on inputs without non-ASCII word characters, except the ten listed members of the sub-family WB-U (Unicode-aware word boundary of regexp2, recorded finding)")
	c.Assume("quantifiers are applied to operands that cannot match the empty string only (the property's quantifier excludes quantified nullable sub-patterns)")
	c.Assume("named groups get distinct names (Go numbers two groups of one name separately, regexp2 merges them as .NET does: outside the common syntax); a pattern that mixes named and unnamed groups is compiled with RE2 + OptionMaintainCaptureOrder (options \"2O\"), the documented way to get pattern-order numbering; all other patterns with RE2 alone")
	st := &c06Stats{adRejectKinds: map[string][]string{}, adRejectCount: map[string]int64{}, violMethods: map[string]int64{}}
	only := os.Getenv("VERIF_C06_ONLY") // development aid: run the families whose name contains this text
	for _, f := range c06Families(thorough) {
		if only != "" && !c06NameSelected(f.name, only) {
			c.NotExhaustive("family " + f.name + " skipped by VERIF_C06_ONLY")
			continue
		}
		c.c06Run(f, st)
	}
	for k, v := range map[string]*atomic.Int64{"pattern: accepted by both": &st.both, "pattern: rejected by Go (skipped)": &st.goRejects, "pattern: accepted by Go, rejected by adapter (skipped)": &st.adRejects,
		"pattern: rejected by both (skipped)": &st.bothReject, "pattern: named and unnamed groups mixed (compiled with MaintainCaptureOrder)": &st.ordered,
		"pattern tree: recorded shape, left to the sub-families NESTQ / NWB": &st.leftOut,
		"point: match": &st.matched, "point: empty match": &st.empty, "point: match with an unset group (-1 pair)": &st.unset,
		"point: two or more matches in FindAll": &st.multi, "point: match covers an invalid byte": &st.invalid, "point: match starts after a multi-byte or invalid unit (byte offset != rune offset)": &st.shifted} {
		if v.Load() > 0 {
			c.Outcome(k, v.Load())
		}
	}
	c.Outcome("point: no match", st.points.Load()-st.matched.Load())
	for k, v := range st.violMethods {
		c.Outcome("differing call: "+k, v)
	}
	c.extra["method_call_pairs"] = st.points.Load() * c06MethodsPerPoint
	c.extra["states"] = st.points.Load()
	c.extra["transitions"] = st.points.Load() * c06MethodsPerPoint
	c.extra["traces_validated_against_impl"] = st.points.Load()
	c.extra["programs"] = st.both.Load()
	c.extra["model"] = "Go's regexp package (external executable reference): every method result of the adapter is compared with the result of the same method of *regexp.Regexp for the same (pattern, input, n)"
	if len(st.adRejectCount) > 0 {
		type rej struct {
			Error    string   `json:"error"`
			Patterns int64    `json:"patterns"`
			Examples []string `json:"examples"`
		}
		var rs []rej
		for k, n := range st.adRejectCount {
			rs = append(rs, rej{k, n, st.adRejectKinds[k]})
		}
		sort.Slice(rs, func(i, j int) bool { return rs[i].Error < rs[j].Error })
		c.extra["accepted_by_go_rejected_by_adapter"] = rs
	}
}

func c06NameSelected(name, only string) bool {
	for _, part := range strings.Split(only, ",") {
		if part != "" && strings.Contains(name, part) {
			return true
		}
	}
	return false
}

func replayC06(v Violation) (bool, string) {
	std, gerr := regexp.Compile(v.Pattern)
	if gerr != nil {
		return false, "Go rejects the pattern: " + gerr.Error()
	}
	opts := optSet(v.Options)
	if opts == "" {
		opts = "2"
	}
	ad, aerr := compat.Compile(v.Pattern, opts.compileOptions()...)
	if aerr != nil {
		return false, "the adapter rejects the pattern: " + aerr.Error()
	}
	if g, w := ad.String(), std.String(); g != w {
		return true, fmt.Sprintf("String() = %q, Go: %q", g, w)
	}
	var in []byte
	if s, ok := v.Extra["input_bytes"].(string); ok {
		in, _ = base64.StdEncoding.DecodeString(s)
	}
	diffs, _ := c06ComparePoint(ad, std, string(in), append([]byte{}, in...))
	if len(diffs) == 0 {
		return false, fmt.Sprintf("all %d call pairs agree on input %q", c06MethodsPerPoint, in)
	}
	return true, c06Violation(v.Leg, v.Options, v.Pattern, string(in), diffs).Detail
}
