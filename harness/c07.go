package main

// C07: successive matches are ordered, disjoint, terminate; each equals an independent search
// from the previous end; find-all returns the chain minus adjacent empties.

import (
	"time"

	regexp2 "github.com/dlclark/regexp2/v2"
)

func init() {
	register("C07", runC07)
	replayers["C07"] = replayC07
}

func c07Check(re *regexp2.Regexp, in []rune, hasG bool) (nontrivial bool, bad *Violation) {
	rtl := re.RightToLeft()
	first, err := re.FindRunesMatch(in)
	ch := walkChain(re, first, err, len(in))
	start0 := 0
	if rtl {
		start0 = len(in)
	}
	if ch.err != "" {
		return false, vio("chain", in, start0, "error while iterating: %s", ch.err)
	}
	if ch.nterm {
		return false, vio("terminate", in, start0, "FindNextMatch chain exceeds len+2 matches: %s", chainString(ch.ms))
	}
	if len(ch.ms) > len(in)+1 {
		return false, vio("terminate", in, start0, "more than len+1 matches: %s", chainString(ch.ms))
	}
	nontrivial = len(ch.ms) >= 2
	// ordering / disjointness / no repeated empty match
	for i := 1; i < len(ch.ms); i++ {
		p, m := ch.ms[i-1], ch.ms[i]
		if !rtl {
			if m.idx < p.idx+p.ln || (m.idx == p.idx && m.ln == 0 && p.ln == 0) || m.idx < p.idx || (m.idx == p.idx) {
				return nontrivial, vio("order", in, start0, "match %d (%d,+%d) does not lie strictly after match %d (%d,+%d): %s", i, m.idx, m.ln, i-1, p.idx, p.ln, chainString(ch.ms))
			}
		} else {
			if m.idx+m.ln > p.idx || (m.idx+m.ln == p.idx+p.ln) {
				return nontrivial, vio("order", in, start0, "right-to-left match %d (%d,+%d) does not lie strictly before match %d (%d,+%d): %s", i, m.idx, m.ln, i-1, p.idx, p.ln, chainString(ch.ms))
			}
		}
	}
	// each element = independent search from the previous end (one further after an empty match), \G bound to that end
	origin := start0
	scan := start0
	for i := 0; i <= len(ch.ms); i++ {
		var want mres
		exhausted := (!rtl && scan > len(in)) || (rtl && scan < 0)
		if !exhausted {
			nm, _, nerr := re.VerifNaiveScan(in, origin, scan)
			want = fromMatch(nm, nerr)
		}
		var got mres
		if i < len(ch.ms) {
			got = ch.ms[i]
		}
		if !want.equal(got) {
			return nontrivial, vio("recompute", in, start0, "element %d of the chain is %s but an independent naive search with origin=%d from position %d gives %s; chain=%s", i, got, origin, scan, want, chainString(ch.ms))
		}
		if !hasG && !exhausted {
			pm := fromMatch(re.FindRunesMatchStartingAt(in, scan))
			if !pm.equal(got) {
				return nontrivial, vio("recompute-public", in, start0, "element %d of the chain is %s but FindRunesMatchStartingAt(%d) gives %s", i, got, scan, pm)
			}
		}
		if i == len(ch.ms) {
			break
		}
		if rtl {
			origin = got.idx
		} else {
			origin = got.idx + got.ln
		}
		scan = origin
		if got.ln == 0 {
			if rtl {
				scan--
			} else {
				scan++
			}
		}
	}
	// find-all
	s := string(in)
	off := byteOffsets(in)
	for _, n := range []int{-1, 0, 1, 2, 3} {
		want := findAllExpected(ch.ms, n, rtl)
		gr, e1 := re.FindAllRunesIndex(in, n)
		if e1 != nil || !samePairs(want, pairsOf(gr)) {
			return nontrivial, vio("findall-runes", in, start0, "FindAllRunesIndex(n=%d)=%v err=%v, chain minus adjacent empties=%v, chain=%s", n, gr, e1, want, chainString(ch.ms))
		}
		gs, e2 := re.FindAllStringIndex(s, n)
		wb := make([][2]int, len(want))
		for i, p := range want {
			wb[i] = [2]int{off[p[0]], off[p[1]]}
		}
		if len(want) == 0 {
			wb = nil
		}
		if e2 != nil || !samePairs(wb, pairsOf(gs)) {
			return nontrivial, vio("findall-string", in, start0, "FindAllStringIndex(n=%d)=%v err=%v, expected byte pairs %v, chain=%s", n, gs, e2, wb, chainString(ch.ms))
		}
	}
	return nontrivial, nil
}

func runC07(c *Ctx) {
	c.Level = "model_checking"
	thorough := c.Tier == "thorough"
	if thorough {
		c.SetBudget(30 * time.Minute)
	} else {
		c.SetBudget(4 * time.Minute)
	}
	c.Rule = "every pattern of the listed families (ZW = every CORE pattern that is nullable or contains \\G or a lookbehind) x {left-to-right, RightToLeft} x every input up to the bound: the FindNextMatch chain is walked to its end (cap len+2) and checked for strict progress, disjointness, no repeated empty match, at most len+1 elements; every element (and the final nil) is recomputed by an independent naive search with \\G bound to the previous end; FindAllRunesIndex/FindAllStringIndex for n in {-1,0,1,2,3} must equal the chain minus empty matches adjacent to the preceding match, truncated. Non-trivial = inputs whose chain has at least two matches."
	c.Assume("the recomputation uses the hook VerifNaiveScan(origin, scanpos); for \\G-free patterns the public FindRunesMatchStartingAt is compared as well")
	var jobs []job
	add := func(fam string, pats []Pat, o optSet, pr profile, L int) {
		jobs = append(jobs, job{fam: fam, pats: pats, opts: o, prof: pr, maxL: L})
	}
	zw4 := zwFamily(4)
	core4 := coreFamily("CORE", grammarCore(), 4)
	lookF := lookFamily(false)
	anch := anchFamily(4, false)
	anchProf := profile{name: "ANCH {a,\\n,c}", m: map[rune]rune{'b': '\n'}, input: []rune{'a', 'b', 'c'}}
	corpus := corpusPatterns()
	for _, o := range []optSet{"", "R"} {
		add("ZW<=4", zw4, o, profP0, 5)
		add("CORE<=4", core4, o, profP0, 4)
		add("ANCH<=4", anch, o, anchProf, 4)
		add("ANCH<=4", anch, o+"m", anchProf, 4)
		add("BAL", balFamily(), o, profP0, 5)
		add("CORPUS", corpus, o, profCorpus, 3)
		add("LIM", limFamily(), o, profCorpus, 2)
	}
	add("LOOK", lookF, "", profP0, 4)
	add("ZW<=4", zw4, "", profP2, 4)
	add("SEQ k<=2 anchored", seqFamily(2, true), "", profP0, 5)
	if thorough {
		zw5 := zwFamily(5)
		add("ZW<=5", zw5, "", profP0, 4)
		add("ZW<=5", zw5, "R", profP0, 4)
		add("LOOK", lookF, "R", profP0, 4)
		add("LOOK", lookF, "", profP0, 5)
		add("LOOP", loopFamily(true), "", profP0, 5)
		add("LOOP", loopFamily(true), "R", profP0, 4)
		add("ZW<=4", zw4, "", profP1, 5)
		add("ZW<=4", zw4, "m", profP6, 5)
		add("SEQ k<=3", seqFamily(3, false), "", profP0, 5)
	}
	c.runJobs(jobs, func(jc *jobCase) (n, nt int64, bad *Violation) {
		re, err := regexp2.Compile(jc.src, jc.j.opts.compileOptions()...)
		if err != nil {
			if jc.p.AST == nil {
				return 0, 0, nil
			}
			return 0, 0, &Violation{Leg: "compile", Detail: "enumerated pattern does not compile: " + err.Error()}
		}
		hasG := re.VerifCode().UsesStartAnchor()
		for _, in := range jc.inputs {
			n++
			ntv, b := c07Check(re, in, hasG)
			if ntv {
				nt++
			}
			if b != nil {
				return n, nt, b
			}
		}
		return
	})
	c.extra["states"] = c.evals.Load()
	c.extra["transitions"] = c.evals.Load()
	c.extra["traces_validated_against_impl"] = c.evals.Load()
}

func replayC07(v Violation) (bool, string) {
	re, err := regexp2.Compile(v.Pattern, optSet(v.Options).compileOptions()...)
	if err != nil {
		return false, "compile error: " + err.Error()
	}
	in, _ := replayInput(v)
	_, b := c07Check(re, in, re.VerifCode().UsesStartAnchor())
	if b != nil {
		return true, b.Leg + ": " + b.Detail
	}
	return false, "all chain invariants hold"
}
