package main

// Bounded-exhaustive pattern enumerators. Every family is a finite grammar enumerated
// completely up to its bound; pattern texts are de-duplicated.

import (
	"sort"
)

type quant struct {
	min, max int
	lazy     bool
}

var quantsAll = []quant{{0, -1, false}, {1, -1, false}, {0, 1, false}, {0, -1, true}, {1, -1, true}, {0, 1, true}, {2, 2, false}, {1, 2, false}, {2, -1, false}, {1, 2, true}}

// Pat is one enumerated pattern.
type Pat struct {
	Src     string
	AST     *Node // nil for text-only patterns
	NGroups int   // incl. group 0 (AST patterns only)
	Fam     string
}

type grammar struct {
	leaves    []*Node
	quants    []quant
	c01       bool // restrict quantifier operands to the C01 fragment
	caps      bool
	named     bool // also (?<n> ) groups
	atomics   bool
	looks     bool
	condRef   bool
	condExp   bool
	optGroups []([2]string) // inline option groups (on, off)
	memo      map[int][]*Node
}

func coreLeaves(anchors string, backref bool) []*Node {
	out := []*Node{lit('a'), lit('b'), anyc(), set(false, 'a', 'b'), set(true, 'a')}
	for _, a := range anchors {
		out = append(out, asrt(a))
	}
	if backref {
		out = append(out, &Node{K: KRef, Cap: 1})
	}
	return out
}

// compositions of total into k positive parts
func compositions(total, k int, f func([]int)) {
	parts := make([]int, k)
	var rec func(i, rem int)
	rec = func(i, rem int) {
		if i == k-1 {
			parts[i] = rem
			f(parts)
			return
		}
		for v := 1; v <= rem-(k-1-i); v++ {
			parts[i] = v
			rec(i+1, rem-v)
		}
	}
	if total >= k {
		rec(0, total)
	}
}

func (g *grammar) gen(n int) []*Node {
	if g.memo == nil {
		g.memo = map[int][]*Node{}
	}
	if v, ok := g.memo[n]; ok {
		return v
	}
	var out []*Node
	if n == 1 {
		out = g.leaves
		g.memo[n] = out
		return out
	}
	for _, kid := range g.gen(n - 1) {
		if !g.c01 || (!reducibleToRep(kid) && !nullable(kid)) {
			for _, q := range g.quants {
				out = append(out, rep(kid, q.min, q.max, q.lazy))
			}
		}
		if g.caps {
			out = append(out, capg(kid))
		}
		if g.named {
			out = append(out, &Node{K: KCap, Name: "n", Kids: []*Node{kid}})
		}
		if g.atomics {
			out = append(out, atomicg(kid))
		}
		if g.looks {
			for _, ah := range []bool{true, false} {
				for _, ng := range []bool{false, true} {
					out = append(out, look(ah, ng, kid))
				}
			}
		}
		for _, og := range g.optGroups {
			out = append(out, &Node{K: KOpt, On: og[0], Off: og[1], Kids: []*Node{kid}})
		}
	}
	for k := 2; k <= n-1; k++ {
		compositions(n-1, k, func(parts []int) {
			var rec func(i int, acc []*Node, kind Kind)
			rec = func(i int, acc []*Node, kind Kind) {
				if i == len(parts) {
					kids := make([]*Node, len(acc))
					copy(kids, acc)
					out = append(out, &Node{K: kind, Kids: kids})
					return
				}
				for _, c := range g.gen(parts[i]) {
					if c.K == kind {
						continue // canonical flattening
					}
					rec(i+1, append(acc, c), kind)
				}
			}
			rec(0, nil, KCat)
			rec(0, nil, KAlt)
		})
	}
	if n >= 3 && g.condRef {
		compositions(n-1, 2, func(parts []int) {
			for _, x := range g.gen(parts[0]) {
				if x.K == KAlt {
					continue
				}
				for _, y := range g.gen(parts[1]) {
					if y.K == KAlt {
						continue
					}
					out = append(out, &Node{K: KCondRef, Cap: 1, Kids: []*Node{x, y}})
				}
			}
		})
	}
	if n >= 4 && g.condExp {
		compositions(n-1, 3, func(parts []int) {
			for _, c := range g.gen(parts[0]) {
				for _, x := range g.gen(parts[1]) {
					if x.K == KAlt {
						continue
					}
					for _, y := range g.gen(parts[2]) {
						if y.K == KAlt {
							continue
						}
						out = append(out, &Node{K: KCondExp, Kids: []*Node{c, x, y}})
					}
				}
			}
		})
	}
	g.memo[n] = out
	return out
}

// finalize numbers the groups, drops patterns whose references have no target and
// de-duplicates by pattern text.
func finalize(fam string, trees []*Node, seen map[string]bool, explicitCapture bool) []Pat {
	var out []Pat
	for _, t := range trees {
		needsGroup := hasKind(t, KRef) || hasKind(t, KCondRef)
		c := clone(t)
		ng := numberCaps(c, explicitCapture)
		if needsGroup {
			ok := true
			walk(c, func(x *Node) {
				if (x.K == KRef || x.K == KCondRef) && (x.Cap <= 0 || x.Cap >= ng) {
					ok = false
				}
			})
			if !ok {
				continue
			}
		}
		s := c.String()
		if seen[s] {
			continue
		}
		seen[s] = true
		out = append(out, Pat{Src: s, AST: c, NGroups: ng, Fam: fam})
	}
	return out
}

// coreFamily enumerates the grammar up to maxSize.
func coreFamily(fam string, g *grammar, maxSize int) []Pat {
	seen := map[string]bool{}
	var out []Pat
	for n := 1; n <= maxSize; n++ {
		out = append(out, finalize(fam, g.gen(n), seen, false)...)
	}
	return out
}

func grammarCoreS() *grammar {
	return &grammar{leaves: coreLeaves("^$bBAzZG", true), quants: quantsAll, c01: true, caps: true, atomics: true, looks: true, condRef: true}
}

func grammarCore() *grammar {
	return &grammar{leaves: coreLeaves("^$bBAzZG", true), quants: quantsAll, caps: true, atomics: true, looks: true, condRef: true}
}

// ---- SEQ ----

func seqItems() []*Node {
	atoms := []*Node{lit('a'), lit('b'), anyc(), set(false, 'a', 'b'), set(true, 'a')}
	qs := append([]quant{{1, 1, false}}, quantsAll[:8]...)
	var items []*Node
	for _, a := range atoms {
		for _, q := range qs {
			if q.min == 1 && q.max == 1 {
				items = append(items, a)
			} else {
				items = append(items, rep(a, q.min, q.max, q.lazy))
			}
		}
	}
	return items
}

// seqFamily: [^|\G]? item{1..k} [$|\z]?; anchors=false gives the bare sequences only.
func seqFamily(k int, anchors bool) []Pat {
	items := seqItems()
	pre := []*Node{nil}
	post := []*Node{nil}
	if anchors {
		pre = append(pre, asrt('^'), asrt('G'))
		post = append(post, asrt('$'), asrt('z'))
	}
	var trees []*Node
	var rec func(acc []*Node, n int)
	rec = func(acc []*Node, n int) {
		if len(acc) > 0 {
			for _, pr := range pre {
				for _, po := range post {
					parts := []*Node{pr}
					parts = append(parts, acc...)
					parts = append(parts, po)
					nd := cat(parts...)
					if nd.K == KCat {
						nd = &Node{K: KCat, Kids: append([]*Node{}, nd.Kids...)}
					}
					trees = append(trees, nd)
				}
			}
		}
		if n == 0 {
			return
		}
		for _, it := range items {
			rec(append(acc, it), n-1)
		}
	}
	rec(nil, k)
	return finalize("SEQ", trees, map[string]bool{}, false)
}

// ---- ALT ----

func altFamily(full bool) []Pat {
	lits := []string{"a", "b", "aa", "ab", "ba", "bb"}
	if full {
		lits = append(lits, "aab", "aba", "abb", "bab")
	}
	tails := []*Node{nil,
		rep(lit('a'), 0, -1, false),
		rep(lit('b'), 1, -1, false),
		rep(set(false, 'a', 'b'), 0, 1, false),
		rep(lit('b'), 0, -1, true),
		anyc(),
	}
	var branches, plain []*Node
	for _, l := range lits {
		plain = append(plain, litStr(l))
		for _, t := range tails {
			branches = append(branches, cat(litStr(l), t))
		}
	}
	var alts []*Node
	for _, x := range branches {
		for _, y := range branches {
			alts = append(alts, alt(x, y))
		}
	}
	for _, x := range plain {
		for _, y := range plain {
			for _, z := range plain {
				alts = append(alts, alt(x, y, z))
			}
		}
	}
	pres := []*Node{nil, lit('a'), anyc()}
	sufs := []*Node{nil, lit('a'), lit('b'), rep(lit('b'), 0, -1, false)}
	if !full {
		pres = pres[:1]
		sufs = sufs[:3]
	}
	var trees []*Node
	for _, a := range alts {
		for w := 0; w < 3; w++ {
			var g *Node
			switch w {
			case 0:
				g = a
			case 1:
				g = atomicg(a)
			case 2:
				g = capg(a)
			}
			for _, pr := range pres {
				for _, sf := range sufs {
					if pr == nil && sf == nil {
						trees = append(trees, g)
					} else {
						nd := cat(pr, g, sf)
						trees = append(trees, nd)
					}
				}
			}
		}
	}
	return finalize("ALT", trees, map[string]bool{}, false)
}

// ---- ALTB: alternations whose branches are wrapped one by one (capture / atomic group), so that the parser's
// prefix factoring cannot merge them and the prefix analysis has to intersect the branch prefixes itself ----

func altBranchFamily(full bool) []Pat {
	var lits []string
	maxLit := 2
	if full {
		maxLit = 3
	}
	for _, l := range allStrings([]rune{'a', 'b'}, maxLit)[1:] {
		lits = append(lits, string(l))
	}
	wrap := func(mode, i int, x *Node) *Node {
		switch mode {
		case 0:
			return capg(x)
		case 1:
			return atomicg(x)
		default: // alternate: capture, plain, capture
			if i%2 == 0 {
				return capg(x)
			}
			return x
		}
	}
	pres := []*Node{nil}
	sufs := []*Node{nil, lit('a')}
	if full {
		pres = append(pres, anyc())
		sufs = append(sufs, asrt('$'), rep(lit('b'), 0, -1, false))
	}
	var trees []*Node
	emit := func(bs ...string) {
		for mode := 0; mode < 3; mode++ {
			kids := make([]*Node, len(bs))
			for i, b := range bs {
				kids[i] = wrap(mode, i, litStr(b))
			}
			a := alt(kids...)
			for _, pr := range pres {
				for _, sf := range sufs {
					if pr == nil && sf == nil {
						trees = append(trees, a)
					} else {
						trees = append(trees, cat(pr, &Node{K: KGroup, Kids: []*Node{a}}, sf))
					}
				}
			}
		}
	}
	for _, x := range lits {
		for _, y := range lits {
			emit(x, y)
			for _, z := range lits {
				emit(x, y, z)
			}
		}
	}
	return finalize("ALTB", trees, map[string]bool{}, false)
}

// ---- BUMP: a leading unbounded loop (the shape that gets the bump-along shortcut) behind every kind of wrapper
// (atomic, capture, plain group, nestings) with something after the loop inside the wrapper and after it ----

func bumpFamily() []Pat {
	atoms := []*Node{anyc(), lit('a'), set(false, 'a', 'b'), set(true, 'a')}
	qs := []quant{{0, -1, false}, {1, -1, false}, {0, -1, true}, {1, -1, true}, {2, -1, false}, {2, -1, true}}
	tails := []*Node{nil, lit('a'), lit('b'), litStr("ab")}
	sufs := []*Node{nil, asrt('$'), lit('a'), lit('b'), &Node{K: KRef, Cap: 1}, asrt('b')}
	var trees []*Node
	for _, a := range atoms {
		for _, q := range qs {
			l := rep(a, q.min, q.max, q.lazy)
			for _, t := range tails {
				body := cat(l, t)
				wraps := []*Node{
					body,
					atomicg(body),
					capg(body),
					{K: KGroup, Kids: []*Node{body}},
					atomicg(capg(body)),
					capg(atomicg(body)),
					cat(capg(l), t),
					cat(atomicg(l), t),
				}
				for _, w := range wraps {
					for _, sf := range sufs {
						if sf == nil {
							trees = append(trees, w)
						} else {
							trees = append(trees, cat(w, sf))
						}
					}
				}
			}
		}
	}
	return finalize("BUMP", trees, map[string]bool{}, false)
}

// bumpFamilyC01: the members of BUMP that lie in the fragment of the reference model
func bumpFamilyC01() []Pat {
	var out []Pat
	for _, p := range bumpFamily() {
		if inC01Fragment(p.AST) {
			out = append(out, p)
		}
	}
	return out
}

// ---- LOOP ----

func loopFamily(nullableBodies bool) []Pat {
	items := seqItems()
	var bodies []*Node
	for _, a := range items {
		bodies = append(bodies, a)
		for _, b := range items {
			bodies = append(bodies, cat(a, b))
		}
	}
	counts := []quant{{0, 1, false}, {0, -1, false}, {1, -1, false}, {2, 2, false}, {1, 2, false}, {2, -1, false}, {0, 2, false},
		{0, -1, true}, {1, -1, true}, {1, 2, true}}
	sufs := []*Node{nil, lit('a'), lit('b'), asrt('$')}
	var trees []*Node
	for _, b := range bodies {
		if !nullableBodies && (nullable(b) || reducibleToRep(b)) {
			continue
		}
		for w := 0; w < 3; w++ {
			var g *Node
			switch w {
			case 0:
				g = &Node{K: KGroup, Kids: []*Node{b}}
			case 1:
				g = capg(b)
			case 2:
				g = atomicg(b)
			}
			if !nullableBodies && reducibleToRep(g) {
				continue
			}
			for _, c := range counts {
				for _, sf := range sufs {
					trees = append(trees, cat(rep(g, c.min, c.max, c.lazy), sf))
				}
			}
		}
	}
	return finalize("LOOP", trees, map[string]bool{}, false)
}

// ---- LOOP3: group loops whose body is three items (a literal head, then loops): the shapes on which the
// auto-atomic analysis has to look past the end of a loop body (what follows the body's last loop is either the next
// iteration's head or what follows the group) ----

func loop3Family(full bool) []Pat {
	heads := []*Node{lit('a'), lit('b'), litStr("ab"), litStr("ba")}
	loops := []*Node{rep(lit('a'), 0, -1, false), rep(lit('b'), 0, -1, false), rep(set(false, 'a', 'b'), 0, -1, false), rep(lit('a'), 1, -1, false),
		rep(lit('a'), 0, -1, true), rep(lit('a'), 0, 1, false)}
	tails := []*Node{nil, rep(lit('c'), 0, -1, false), rep(lit('b'), 0, -1, false), rep(lit('c'), 0, 1, false)}
	counts := []quant{{0, -1, false}, {1, -1, false}, {0, 1, false}, {0, -1, true}, {0, 2, false}, {2, 2, false}}
	sufs := []*Node{nil, lit('a'), lit('b'), lit('c')}
	if full {
		loops = append(loops, rep(anyc(), 0, -1, false), rep(set(true, 'a'), 0, -1, false), rep(lit('b'), 1, -1, true))
		tails = append(tails, rep(lit('a'), 0, -1, false), rep(set(false, 'b', 'c'), 0, -1, false))
		counts = append(counts, quant{1, 2, false}, quant{2, -1, false}, quant{1, -1, true})
		sufs = append(sufs, asrt('$'))
	}
	var trees []*Node
	for _, h := range heads {
		for _, l := range loops {
			for _, t := range tails {
				body := cat(h, l, t)
				for w := 0; w < 2; w++ {
					var g *Node
					if w == 0 {
						g = &Node{K: KGroup, Kids: []*Node{body}}
					} else {
						g = capg(body)
					}
					for _, c := range counts {
						for _, sf := range sufs {
							trees = append(trees, cat(rep(g, c.min, c.max, c.lazy), sf))
						}
					}
				}
			}
		}
	}
	return finalize("LOOP3", trees, map[string]bool{}, false)
}

// ---- GROW: group loops whose iterations push enough frames to make the backtracking stack grow while an atomic
// group, a lookaround or a conditional test is open (those save a stack position when they open and restore it
// when they close), followed by something that fails and sends the engine back to an earlier choice point ----

func growFamily() []Pat {
	bodies := []*Node{alt(capg(lit('a')), capg(lit('b'))), litStr("ab"), capg(litStr("ab")), alt(lit('a'), lit('b')), cat(capg(lit('a')), rep(capg(lit('b')), 0, 1, false))}
	pres := []*Node{rep(anyc(), 0, -1, true), nil, rep(set(false, 'a', 'b'), 0, -1, true)}
	sufs := []*Node{lit('c'), litStr("xc"), nil}
	var trees []*Node
	for _, b := range bodies {
		for _, lazy := range []bool{false, true} {
			loop := rep(&Node{K: KGroup, Kids: []*Node{b}}, 0, -1, lazy)
			wraps := []*Node{atomicg(loop), look(true, false, loop), look(true, true, cat(loop, lit('x'))), capg(loop), loop,
				{K: KCondExp, Kids: []*Node{loop, lit('a'), lit('b')}}, look(false, false, loop)}
			for _, w := range wraps {
				for _, pr := range pres {
					for _, sf := range sufs {
						trees = append(trees, cat(pr, w, sf))
					}
				}
			}
		}
	}
	var keep []*Node
	for _, t := range trees {
		if inC01Fragment(t) {
			keep = append(keep, t)
		}
	}
	return finalize("GROW", keep, map[string]bool{}, false)
}

// growInputs: u^n v for short units u, n up to 12, and short tails v.
func growInputs() [][]rune {
	var out [][]rune
	seen := map[string]bool{}
	for _, u := range []string{"ab", "a", "ba"} {
		for _, n := range []int{0, 1, 2, 4, 5, 6, 8, 9, 10, 12} {
			for _, v := range []string{"", "c", "xc", "x", "bxc"} {
				s := ""
				for i := 0; i < n; i++ {
					s += u
				}
				s += v
				if !seen[s] {
					seen[s] = true
					out = append(out, []rune(s))
				}
			}
		}
	}
	return out
}

// ---- LITAB: every literal over {a,b} (and, thorough, over {a,b,c} up to length 6): self-overlapping literals are what
// the Boyer-Moore shift tables and the string prefix filters can get wrong; inputs are ALL strings over {a,b} up
// to length 10 ----

func litABFamily(full bool) []Pat {
	var trees []*Node
	for _, l := range allStrings([]rune{'a', 'b'}, 7)[1:] {
		if len(l) >= 2 {
			trees = append(trees, litStr(string(l)))
		}
	}
	if full {
		for _, l := range allStrings([]rune{'a', 'b'}, 9) {
			if len(l) >= 8 {
				trees = append(trees, litStr(string(l)))
			}
		}
	}
	return finalize("LITAB", trees, map[string]bool{}, false)
}

// ---- LOOK3: lookarounds whose body is a literal of two letters next to a single-character or class loop that can
// take the literal's neighbouring letter, followed by something that forces the loop to give it back ----

func look3Family() []Pat {
	lits := []string{"ab", "ba", "aa", "ca", "ac"}
	loops := []*Node{rep(set(false, 'a', 'b'), 0, -1, false), rep(set(true, 'c'), 0, -1, false), rep(set(true, 'a'), 0, -1, false), rep(lit('a'), 0, -1, false), rep(lit('b'), 1, -1, false),
		rep(set(false, 'a', 'b'), 0, -1, true), rep(anyc(), 0, -1, false)}
	posts := []*Node{lit('c'), lit('a'), lit('b'), nil}
	var trees []*Node
	for _, l := range lits {
		for _, lp := range loops {
			for _, order := range []int{0, 1} {
				var body *Node
				if order == 0 {
					body = cat(litStr(l), lp)
				} else {
					body = cat(lp, litStr(l))
				}
				for _, ah := range []bool{false, true} {
					for _, ng := range []bool{false, true} {
						lk := look(ah, ng, body)
						for _, po := range posts {
							if ah {
								trees = append(trees, cat(lk, rep(anyc(), 0, -1, false), po))
							} else {
								trees = append(trees, cat(rep(anyc(), 0, -1, true), lk, po))
								trees = append(trees, cat(lk, po))
							}
						}
					}
				}
			}
		}
	}
	var keep []*Node
	for _, t := range trees {
		if inC01Fragment(t) {
			keep = append(keep, t)
		}
	}
	return finalize("LOOK3", keep, map[string]bool{}, false)
}

// ---- LOOKLOOP: a counted group loop whose body is (single-character loop, literal) or (literal, loop), inside a
// lookbehind (its content runs right-to-left inside a left-to-right pattern), a lookahead, or an atomic group
// (run under RightToLeft as well): the "last expression of the loop body" that the end-of-atomic-context rewrite
// looks at is the FIRST one in a right-to-left subtree (`(?<=(?:a*ba){2})c` on baabac) ----

func lookLoopFamily() []Pat {
	loops := []*Node{rep(lit('a'), 0, -1, false), rep(set(false, 'a', 'b'), 0, -1, false), rep(set(true, 'c'), 1, -1, false), rep(anyc(), 0, -1, false), rep(lit('a'), 0, 1, false)}
	lits := []string{"ba", "ca", "ab", "b", "ac"}
	counts := []quant{{2, 2, false}, {2, -1, false}, {1, 2, false}, {1, -1, false}}
	var trees []*Node
	for _, lp := range loops {
		for _, l := range lits {
			for _, order := range []int{0, 1} {
				body := cat(lp, litStr(l))
				if order == 1 {
					body = cat(litStr(l), lp)
				}
				for _, cn := range counts {
					g := rep(&Node{K: KGroup, Kids: []*Node{body}}, cn.min, cn.max, false)
					trees = append(trees,
						cat(look(false, false, g), lit('c')),
						cat(look(false, true, g), lit('c')),
						cat(lit('c'), look(true, false, g)),
						atomicg(g),
						cat(atomicg(g), lit('c')),
						cat(lit('c'), atomicg(g)))
				}
			}
		}
	}
	return finalize("LOOKLOOP", trees, map[string]bool{}, false)
}

// ---- ALTREP: alternations whose branches start with the same single-character / class repeater but differ in its
// bounds (the shape that prefix factoring of repeaters must leave alone unless minimum AND maximum agree) ----

func altRepFamily() []Pat {
	atoms := []*Node{set(false, 'a', 'b'), set(true, 'c'), anyc(), lit('a')}
	qs := []quant{{2, 2, false}, {2, 3, false}, {2, -1, false}, {1, 2, false}, {1, 1, false}, {2, 3, true}, {0, 1, false}, {1, -1, false}}
	tails := []*Node{lit('b'), lit('c'), lit('a')}
	var trees []*Node
	for _, at := range atoms {
		for _, q1 := range qs {
			for _, q2 := range qs {
				if q1 == q2 {
					continue
				}
				mk := func(q quant) *Node {
					if q.min == 1 && q.max == 1 {
						return at
					}
					return rep(at, q.min, q.max, q.lazy)
				}
				for _, t1 := range tails {
					for _, t2 := range tails {
						if t1 == t2 {
							continue
						}
						a := alt(cat(mk(q1), t1), cat(mk(q2), t2))
						trees = append(trees, a, cat(asrt('^'), &Node{K: KGroup, Kids: []*Node{a}}, asrt('$')), capg(a))
					}
				}
			}
		}
	}
	return finalize("ALTREP", trees, map[string]bool{}, false)
}

// ---- ALTSET: alternations whose branches are one or two atoms, the atoms including negated and multi-member
// classes: the prefix analyses enumerate "the characters of the set" of a branch's first atom and have to notice
// when that list is the complement (`[^ab]c|ab` under code-gen analysis published the prefixes ac, bc, ab) ----

func altSetFamily() []Pat {
	atoms := func() []*Node {
		return []*Node{lit('a'), lit('b'), lit('c'), set(false, 'a', 'b'), set(true, 'a', 'b'), set(true, 'a'), set(true, 'a', 'b', 'c'), anyc()}
	}
	var branches []*Node
	for i := range atoms() {
		branches = append(branches, atoms()[i])
		for j := range atoms() {
			branches = append(branches, cat(atoms()[i], atoms()[j]))
		}
	}
	var trees []*Node
	for i, x := range branches {
		for j, y := range branches {
			if i == j {
				continue
			}
			a := alt(clone(x), clone(y))
			trees = append(trees, a)
			if (i+j)%7 == 0 {
				trees = append(trees, cat(&Node{K: KGroup, Kids: []*Node{clone(a)}}, lit('c')), capg(clone(a)))
			}
		}
	}
	return finalize("ALTSET", trees, map[string]bool{}, false)
}

// ---- SETOVL: a class loop, then a NULLABLE class loop inside a capture, then a letter, then something that
// depends on what the capture holds (a backreference). Whether the first loop may be made atomic depends on
// whether the two classes overlap: when they do, giving back from the first loop changes the capture
// (`[ab]*([bc]*)c\1$` on abcb needs [ab]* = a, group 1 = b). Plain matching cannot see the difference, which
// is why the small-scope families never did ----

func setOvlFamily() []Pat {
	first := []*Node{set(false, 'a', 'b'), set(true, 'c'), lit('a'), lit('b'), anyc()}
	second := []*Node{set(false, 'b', 'c'), set(true, 'a'), lit('b'), set(false, 'a', 'b'), lit('c')}
	q1 := []quant{{0, -1, false}, {1, -1, false}, {0, 2, false}, {0, -1, true}}
	q2 := []quant{{0, -1, false}, {0, 1, false}, {0, -1, true}, {0, 2, false}}
	mids := []*Node{lit('c'), lit('a'), nil}
	var trees []*Node
	for _, x := range first {
		for _, a := range q1 {
			for _, y := range second {
				for _, b := range q2 {
					for _, m := range mids {
						l1 := rep(x, a.min, a.max, a.lazy)
						l2 := capg(rep(y, b.min, b.max, b.lazy))
						ref := &Node{K: KRef, Cap: 1}
						trees = append(trees,
							cat(l1, l2, m, ref, asrt('$')),
							cat(l1, l2, m, ref),
							cat(l1, l2, m, ref, lit('a')))
					}
				}
			}
		}
	}
	return finalize("SETOVL", trees, map[string]bool{}, false)
}

// ---- LOOPALT: counted group loops (greedy and lazy, minimum >= 2 included) whose body is an alternation of
// literals of different lengths: an iteration can be re-matched through another branch after a later one failed,
// which is where the iteration counters have to be restored exactly ----

func loopAltFamily() []Pat {
	lits := []string{"a", "b", "ab", "ba", "aa", "abb"}
	counts := []quant{{2, 3, true}, {2, -1, true}, {2, 3, false}, {1, 2, true}, {3, 4, true}, {2, 2, false}, {0, 2, true}, {2, -1, false}}
	sufs := []*Node{lit('c'), lit('a'), lit('b'), nil}
	var trees []*Node
	for i, x := range lits {
		for j, y := range lits {
			if i == j {
				continue
			}
			body := alt(litStr(x), litStr(y))
			for w := 0; w < 2; w++ {
				var g *Node
				if w == 0 {
					g = &Node{K: KGroup, Kids: []*Node{body}}
				} else {
					g = capg(body)
				}
				for _, c := range counts {
					for _, sf := range sufs {
						trees = append(trees, cat(rep(g, c.min, c.max, c.lazy), sf))
						trees = append(trees, cat(lit('c'), rep(g, c.min, c.max, c.lazy), sf))
					}
				}
			}
		}
	}
	return finalize("LOOPALT", trees, map[string]bool{}, false)
}

// ---- LOOK ----

func lookFamily(c01only bool) []Pat {
	items := seqItems()
	var small []*Node // items usable as pre/post
	for _, it := range items {
		small = append(small, it)
	}
	var bodies []*Node
	for i, a := range items {
		bodies = append(bodies, a, capg(a))
		if i%3 == 0 { // a third of the pairs keeps the family affordable; still exhaustive over its own grammar
			for j, b := range items {
				if j%3 == 0 {
					bodies = append(bodies, cat(a, b), cat(capg(a), b))
				}
			}
		}
	}
	pres := []*Node{nil, lit('a'), lit('b'), anyc(), rep(lit('a'), 0, -1, false), rep(anyc(), 0, -1, true), asrt('G')}
	posts := []*Node{nil, lit('a'), lit('b'), anyc(), rep(lit('b'), 1, -1, false), &Node{K: KRef, Cap: 1}}
	var trees []*Node
	for _, b := range bodies {
		for _, ah := range []bool{true, false} {
			for _, ng := range []bool{false, true} {
				l := look(ah, ng, b)
				for _, pr := range pres {
					for _, po := range posts {
						trees = append(trees, cat(pr, l, po))
					}
				}
			}
		}
	}
	// conditionals and backreferences
	for _, a := range items {
		for _, x := range []*Node{lit('a'), lit('b'), rep(lit('b'), 0, -1, false)} {
			for _, y := range []*Node{lit('a'), anyc(), &Node{K: KEmpty}} {
				trees = append(trees,
					cat(rep(capg(a), 0, 1, false), &Node{K: KCondRef, Cap: 1, Kids: []*Node{x, y}}),
					cat(alt(capg(a), lit('b')), &Node{K: KCondRef, Cap: 1, Kids: []*Node{x, y}}),
					&Node{K: KCondExp, Kids: []*Node{a, x, y}},
					cat(lit('a'), &Node{K: KCondExp, Kids: []*Node{capg(a), x, y}}),
				)
			}
		}
		trees = append(trees, cat(capg(a), &Node{K: KRef, Cap: 1}), cat(capg(a), rep(&Node{K: KRef, Cap: 1}, 1, -1, false)),
			cat(capg(a), anyc(), &Node{K: KRef, Cap: 1}))
	}
	var keep []*Node
	for _, t := range trees {
		if c01only && !inC01Fragment(t) {
			continue
		}
		keep = append(keep, t)
	}
	return finalize("LOOK", keep, map[string]bool{}, false)
}

// ---- ANCH (letters a, c; '\n' is written as letter 'n' and renamed by the caller) ----

func anchFamily(maxSize int, c01only bool) []Pat {
	g := &grammar{leaves: []*Node{lit('a'), anyc(), set(true, 'a'), lit('N'), asrt('^'), asrt('$'), asrt('A'), asrt('z'), asrt('Z'), asrt('G'), asrt('b'), asrt('B')},
		quants: []quant{{0, -1, false}, {1, -1, false}, {0, 1, false}, {0, -1, true}, {1, 2, false}}, c01: c01only, caps: true, looks: false}
	ps := coreFamily("ANCH", g, maxSize)
	nl := map[rune]rune{'N': '\n'}
	out := make([]Pat, 0, len(ps))
	seen := map[string]bool{}
	for _, p := range ps {
		t := rename(p.AST, nl)
		s := t.String()
		if seen[s] {
			continue
		}
		seen[s] = true
		out = append(out, Pat{Src: s, AST: t, NGroups: p.NGroups, Fam: "ANCH"})
	}
	return out
}

// ---- LAND: leading set loop followed by separated items (landmark-chain shapes) ----

func landFamily() []Pat {
	leads := []*Node{rep(set(false, 'a', 'b'), 0, -1, false), rep(set(false, 'a', 'b'), 0, -1, true), rep(set(false, 'a', 'b'), 1, -1, false), rep(anyc(), 0, -1, false), rep(set(true, 'c'), 0, -1, true)}
	mids := []*Node{lit('a'), lit('b'), set(false, 'a', 'b'), rep(set(false, 'a', 'b'), 1, 2, false), rep(lit('b'), 2, 2, false), rep(lit('a'), 1, -1, false), rep(set(false, 'a', 'b'), 0, 1, false), litStr("ab"),
		// landmarks that are alternations of literals of different lengths (one a proper part of the other)
		{K: KGroup, Kids: []*Node{alt(litStr("aab"), lit('b'))}}, capg(alt(litStr("ab"), lit('b'))), {K: KGroup, Kids: []*Node{alt(lit('a'), litStr("ba"))}}}
	seps := []*Node{lit('c'), lit('a'), lit('b')}
	ends := []*Node{nil, asrt('$')}
	var trees []*Node
	for _, l := range leads {
		for _, m1 := range mids {
			for _, s1 := range seps {
				for _, m2 := range mids {
					for _, e := range ends {
						trees = append(trees, cat(l, m1, s1, m2, e))
						trees = append(trees, cat(l, m1, s1, m2, s1, e))
					}
				}
				trees = append(trees, cat(l, m1, s1))
			}
			trees = append(trees, cat(l, m1))
		}
	}
	return finalize("LAND", trees, map[string]bool{}, false)
}

// ---- ZW: every CORE pattern up to maxSize that is nullable, or contains \G or a lookbehind ----

func zwFamily(maxSize int) []Pat {
	all := coreFamily("ZW", grammarCore(), maxSize)
	var out []Pat
	for _, p := range all {
		lb := false
		walk(p.AST, func(x *Node) {
			if x.K == KLook && !x.Ahead {
				lb = true
			}
		})
		if nullable(p.AST) || hasAssert(p.AST, 'G') || lb {
			out = append(out, p)
		}
	}
	return out
}

// ---- BAL: balancing groups (text only; no reference model) ----

func balFamily() []Pat {
	srcs := []string{
		`(?<o>a)+(?<-o>b)+`, `(?<o>a)+(?<-o>b)+(?(o)(?!))`, `(?<o>a)+(?<c-o>b)+`, `((?<o>a)|(?<-o>b))+`, `((?<o>a)|(?<c-o>b))*(?(o)(?!))`,
		`(?<o>a)(?<o>b)?(?<-o>c)`, `(?<o>a)*(?<-o>.)*`, `(?:(?<o>a)|(?<-o>b)|c)*`, `^(?:(?<o>a)|(?<c-o>b)|c)*$`, `(?<o>a)+(?<-o>b)+?c`,
		`(?<o>a)(?<p>b)(?<-o>c)(?<-p>a)`, `(?<o>a)(?<c-o>b)\k<c>`, `(?<1>a)(?<-1>b)`, `(?<o>a)+(?=(?<-o>b))`, `(?<=(?<o>a))(?<-o>b)`,
		`(?<o>[ab])+(?<x-o>c)+`, `(?'o'a)+(?'-o'b)`, `(a)(?<-1>b)`, `(?<o>a){2}(?<-o>b){1,2}`, `(?>(?<o>a)+)(?<-o>b)+`,
	}
	var out []Pat
	for _, s := range srcs {
		out = append(out, Pat{Src: s, Fam: "BAL"})
	}
	return out
}

func sortPats(ps []Pat) {
	sort.SliceStable(ps, func(i, j int) bool {
		if len(ps[i].Src) != len(ps[j].Src) {
			return len(ps[i].Src) < len(ps[j].Src)
		}
		return ps[i].Src < ps[j].Src
	})
}
