//go:build sched

package main

// C11: concurrent use of a Regexp (and of the process-wide pools, caches and clock behind all
// Regexps) equals sequential use. Schedule exploration on the real code under the controlled
// scheduler, plus an auxiliary free-running race-detector leg of the same scenario bodies.

import (
	"fmt"
	"os"
	"os/exec"
	"runtime"
	"strings"
	"sync"
	"sync/atomic"
	"time"

	regexp2 "github.com/dlclark/regexp2/v2"
	"github.com/dlclark/regexp2/v2/verifshim/vsched"
)

func init() {
	register("C11", runC11)
	replayers["C11"] = replaySched("C11")
	schedScenarios["C11"] = c11Scenarios
}

// a world is the set of fresh Regexps one execution works on
type c11world struct {
	re  map[string]*regexp2.Regexp
	seq int // number of this world (S13 compiles a class no earlier world has compiled)
}

var c11WorldSeq atomic.Int64

type c11call struct {
	name string
	f    func(w *c11world) string
}

type c11scen struct {
	name    string
	build   func() *c11world
	threads [][]c11call
	stepK   int // interpreter steps between scheduling points inside a scan (0 = none)
	pb, db  int
	poolDev bool
}

func fmtMatch(m *regexp2.Match, err error) string {
	return fromMatch(m, err).String()
}

func callMatchString(re, in string) c11call {
	return c11call{fmt.Sprintf("%s.MatchString(%q)", re, in), func(w *c11world) string {
		ok, err := w.re[re].MatchString(in)
		return fmt.Sprint(ok, err)
	}}
}
func callMatchRunes(re, in string) c11call {
	return c11call{fmt.Sprintf("%s.MatchRunes(%q)", re, in), func(w *c11world) string {
		ok, err := w.re[re].MatchRunes([]rune(in))
		return fmt.Sprint(ok, err)
	}}
}
func callFind(re, in string) c11call {
	return c11call{fmt.Sprintf("%s.FindStringMatch(%q)+Groups", re, in), func(w *c11world) string {
		return fmtMatch(w.re[re].FindStringMatch(in))
	}}
}
func callIterate(re, in string) c11call {
	return c11call{fmt.Sprintf("%s.iterate(%q)", re, in), func(w *c11world) string {
		m, err := w.re[re].FindStringMatch(in)
		ch := walkChain(w.re[re], m, err, len(in))
		var sb strings.Builder
		for _, x := range ch.ms {
			sb.WriteString(x.String() + ";")
		}
		return sb.String() + ch.err
	}}
}
func callFindAll(re, in string, n int) c11call {
	return c11call{fmt.Sprintf("%s.FindAllStringIndex(%q,%d)", re, in, n), func(w *c11world) string {
		x, err := w.re[re].FindAllStringIndex(in, n)
		return fmt.Sprint(x, err)
	}}
}
func callReplace(re, in, repl string) c11call {
	return c11call{fmt.Sprintf("%s.Replace(%q,%q)", re, in, repl), func(w *c11world) string {
		x, err := w.re[re].Replace(in, repl, -1, -1)
		return fmt.Sprintf("%q %v", x, err)
	}}
}
func callSplit(re, in string) c11call {
	return c11call{fmt.Sprintf("%s.Split(%q)", re, in), func(w *c11world) string {
		x, err := w.re[re].Split(in, -1)
		return fmt.Sprintf("%q %v", x, err)
	}}
}

// callCompileAndMatch compiles its own Regexp inside the goroutine and uses it at once: whatever Compile shares
// process-wide (tables built on first use, caches keyed by class or pattern) is then built by one goroutine while
// another one already reads it. The class gets one member that no earlier world has used, so that every execution
// starts from "not yet in any table".
func callCompileAndMatch(patFmt, in string) c11call {
	return c11call{fmt.Sprintf("Compile(%s).MatchString(%q)", patFmt, in), func(w *c11world) string {
		re, err := regexp2.Compile(fmt.Sprintf(patFmt, 0x4e00+w.seq%0x5000), regexp2.None)
		if err != nil {
			return err.Error()
		}
		ok, err := re.MatchString(in)
		m, err2 := re.FindStringMatch("q" + in)
		return fmt.Sprint(ok, err) + " " + fmtMatch(m, err2)
	}}
}

// callIdle lets virtual time pass (the timeout clock runs out and its goroutine exits when the idle time is long enough)
func callIdle(d time.Duration) c11call {
	return c11call{fmt.Sprintf("idle(%v)", d), func(w *c11world) string {
		if vsched.Active() { // the free-running race-detector leg has no virtual clock: no idle period there
			vsched.Work(int64(d))
		}
		return ""
	}}
}

func c11List(tier string) []c11scen {
	thorough := tier == "thorough"
	pb, db := 3, 1
	if thorough {
		pb, db = 4, 2
	}
	// every input of up to 1024 bytes is decoded into a buffer of the same (smallest) size class
	// of the global rune-buffer pool, so short inputs already collide there
	long1k := strings.Repeat("ab", 5) + "c"
	long1kb := strings.Repeat("ba", 5) + "d"
	mk := func(pats map[string][]any) func() *c11world {
		return func() *c11world {
			w := &c11world{re: map[string]*regexp2.Regexp{}}
			for k, v := range pats {
				var opts []regexp2.CompileOption
				for _, o := range v[1:] {
					opts = append(opts, o.(regexp2.CompileOption))
				}
				w.re[k] = regexp2.MustCompile(v[0].(string), opts...)
			}
			return w
		}
	}
	var out []c11scen
	add := func(s c11scen) {
		if s.pb == 0 {
			s.pb = pb
		} else if thorough {
			s.pb++
		}
		s.db = db
		s.poolDev = true
		out = append(out, s)
	}
	// S1 bool ∥ bool on one Regexp (runner pool, shared rune-buffer class)
	add(c11scen{name: "S1 MatchString||MatchString", build: mk(map[string][]any{"R": {`(a|b)*c`}}), stepK: 7,
		threads: [][]c11call{{callMatchString("R", "ababc")}, {callMatchString("R", "abab")}}})
	// S2 bool-only (quick program) ∥ find with captures (full program) on recycled runners
	add(c11scen{name: "S2 MatchString||FindStringMatch+Groups", build: mk(map[string][]any{"R": {`(a)(b)?(?:c|(d))`}}), stepK: 6,
		threads: [][]c11call{{callMatchString("R", "abd"), callMatchString("R", "xac")}, {callFind("R", "zabd"), callFind("R", "ac")}}})
	// S3 replacements with a cache smaller than the set of replacement strings
	add(c11scen{name: "S3 Replace x3, cache of 1", build: mk(map[string][]any{"R": {`(a)(b)`, regexp2.OptionMaxCachedReplacerDataEntries(1)}}), pb: 2,
		threads: [][]c11call{{callReplace("R", "xaby", "<$1>")}, {callReplace("R", "xaby", "[$2$1]")}, {callReplace("R", "abab", "${1}-$&")}}})
	add(c11scen{name: "S3b Replace x2 twice, cache of 2", build: mk(map[string][]any{"R": {`(a)(b)`, regexp2.OptionMaxCachedReplacerDataEntries(2)}}), pb: 2,
		threads: [][]c11call{{callReplace("R", "xaby", "<$1>"), callReplace("R", "ab", "$2")}, {callReplace("R", "xaby", "[$2$1]"), callReplace("R", "ab", "<$1>")}}})
	// S4 two Regexps sharing only the global pools, plus a third goroutine re-using what they return
	add(c11scen{name: "S4 two Regexps, same buffer class", build: mk(map[string][]any{"R1": {`(?:ab)*c$`}, "R2": {`(?:ba)*d$`}}), stepK: 12, pb: 2,
		threads: [][]c11call{{callMatchString("R1", long1k)}, {callMatchString("R2", long1kb)}, {callReplace("R1", long1k, "X"), callMatchString("R2", long1k)}}})
	// S5 find-all ∥ split
	add(c11scen{name: "S5 FindAllStringIndex||Split", build: mk(map[string][]any{"R": {`(a)|b*`}}), stepK: 9,
		threads: [][]c11call{{callFindAll("R", "abba", -1)}, {callSplit("R", "cabbac")}}})
	// S6 stack-limited failing match ∥ normal match on the same Regexp
	add(c11scen{name: "S6 stack-limited failure||success", build: mk(map[string][]any{"R": {`(?:(a)|(b))*c`, regexp2.OptionMaxBacktrackingStackSize(72)}}), stepK: 25,
		threads: [][]c11call{{callFind("R", strings.Repeat("ab", 40))}, {callFind("R", "abc")}}})
	// S7 timed ∥ timed ∥ untimed: the clock is started and extended concurrently (deadlines far away)
	add(c11scen{name: "S7 timed||timed||untimed", build: func() *c11world {
		w := mk(map[string][]any{"T1": {`(a)+b`}, "T2": {`a(b)`}, "U": {`ab`}})()
		w.re["T1"].MatchTimeout = 10 * time.Second
		w.re["T2"].MatchTimeout = 20 * time.Second
		return w
	}, pb: 1,
		threads: [][]c11call{{callFind("T1", "aab")}, {callFind("T2", "ab")}, {callMatchString("U", "ab")}}})
	// S10 the clock has run out (idle longer than timeout + slop) and two goroutines come back at the same instant
	add(c11scen{name: "S10 timed||timed after the clock ran out", build: func() *c11world {
		w := mk(map[string][]any{"T1": {`(a)+b`}, "T2": {`a(b)`}})()
		w.re["T1"].MatchTimeout = 2 * time.Second
		w.re["T2"].MatchTimeout = 3 * time.Second
		return w
	}, pb: 1,
		threads: [][]c11call{{callFind("T1", "aab"), callIdle(9 * time.Second), callFind("T1", "xaab")}, {callIdle(9 * time.Second), callFind("T2", "ab")}}})
	// S11 replacement cache warmed with three entries; the goroutines only hit (a hit re-orders the shared LRU list)
	add(c11scen{name: "S11 Replace hits on a warm cache", build: func() *c11world {
		w := mk(map[string][]any{"R": {`(a)(b)`, regexp2.OptionMaxCachedReplacerDataEntries(3)}})()
		for _, r := range []string{"<$1>", "[$2$1]", "${1}-$&"} {
			w.re["R"].Replace("ab", r, -1, -1)
		}
		return w
	}, pb: 2,
		threads: [][]c11call{{callReplace("R", "xaby", "<$1>"), callReplace("R", "ab", "${1}-$&")}, {callReplace("R", "xaby", "[$2$1]"), callReplace("R", "ab", "<$1>")}}})
	// S12 a right-to-left Replace (its own buffer handling) has run before two goroutines decode inputs of the same
	// size class at the same time
	add(c11scen{name: "S12 after a right-to-left Replace: MatchString||MatchString", build: func() *c11world {
		w := mk(map[string][]any{"L": {`b`, regexp2.RightToLeft}, "R1": {`(?:ab)*c$`}, "R2": {`(?:ba)*d$`}})()
		w.re["L"].Replace("xbyb", "#", -1, -1)
		return w
	}, stepK: 12, pb: 2,
		threads: [][]c11call{{callMatchString("R1", long1k)}, {callMatchString("R2", long1kb)}}})
	// S13 every goroutine compiles the same pattern itself and uses its own Regexp at once (class bitmaps and
	// anything else Compile might share process-wide must be complete before another goroutine can see them)
	add(c11scen{name: "S13 Compile+use||Compile+use (same new class)", build: func() *c11world {
		return &c11world{re: map[string]*regexp2.Regexp{}, seq: int(c11WorldSeq.Add(1))}
	}, pb: 2,
		threads: [][]c11call{{callCompileAndMatch(`[\p{Greek}\p{Cyrillic}\x{%x}xz]+[a-cz]`, "zxzz")}, {callCompileAndMatch(`[\p{Greek}\p{Cyrillic}\x{%x}xz]+[a-cz]`, "xzc")}, {callCompileAndMatch(`[\p{Greek}\p{Cyrillic}\x{%x}xz]+[a-cz]`, "zxb")}}})
	// S8 balancing pattern ∥ bool-only call on the same Regexp
	add(c11scen{name: "S8 balancing||bool", build: mk(map[string][]any{"R": {`(?<o>a)+(?<-o>b)+(?(o)(?!))`}}), stepK: 8,
		threads: [][]c11call{{callFind("R", "aabb"), callIterate("R", "abab")}, {callMatchString("R", "aab"), callMatchRunes("R", "ab")}}})
	if thorough {
		add(c11scen{name: "S9 iterate||iterate||Replace", build: mk(map[string][]any{"R": {`(a)|(b)`}}), stepK: 5, pb: 2,
			threads: [][]c11call{{callIterate("R", "ab")}, {callIterate("R", "ba")}, {callReplace("R", "ab", "$2$1")}}})
	}
	return out
}

var c11HookOnce sync.Once

func c11InstallStepHook() {
	c11HookOnce.Do(func() {
		regexp2.VerifSetStepHook(func() {
			t := vsched.Cur()
			if t == nil || c11StepK == 0 {
				return
			}
			t.Aux++
			if t.Aux%c11StepK == 0 {
				vsched.Yield("interp-step")
			}
		})
	})
}

var c11StepK int

// c11Expected runs every call alone on a fresh world (one managed thread, deterministic pool).
func c11Expected(sc c11scen) [][]string {
	exp := make([][]string, len(sc.threads))
	for ti, th := range sc.threads {
		for ci := range th {
			regexp2.VerifResetWorld(100 * time.Millisecond)
			w := sc.build()
			var got string
			s := vsched.New(nil)
			call := th[ci]
			s.Spawn("alone", 0, func() { got = call.f(w) })
			s.Run()
			exp[ti] = append(exp[ti], got)
		}
	}
	return exp
}

func c11Scenarios(tier string) []schedScenario {
	c11InstallStepHook()
	var out []schedScenario
	for _, sc := range c11List(tier) {
		sc := sc
		exp := c11Expected(sc)
		out = append(out, schedScenario{Name: sc.name + ": " + c11Describe(sc), PB: sc.pb, DB: sc.db, FB: 0, Cap: 120000, Run: func(prefix []int, verbose bool) schedOutcome {
			regexp2.VerifResetWorld(100 * time.Millisecond)
			c11StepK = sc.stepK
			w := sc.build()
			s := vsched.New(prefix)
			s.PoolDev = sc.poolDev
			s.Verbose = verbose
			got := make([][]string, len(sc.threads))
			for ti := range sc.threads {
				ti := ti
				got[ti] = make([]string, len(sc.threads[ti]))
				s.Spawn(fmt.Sprintf("g%d", ti), 0, func() {
					for ci, call := range sc.threads[ti] {
						func() {
							defer func() {
								if r := recover(); r != nil {
									got[ti][ci] = "PANIC " + panicText(r)
								}
							}()
							got[ti][ci] = call.f(w)
						}()
					}
				})
			}
			s.Run()
			o := schedOutcome{Trace: s.Trace, Steps: s.Steps, Log: s.Log}
			switch {
			case s.Diverged != "":
				o.Harness = s.Diverged
			case s.Fault != "":
				o.Verdict = s.Fault
			case s.Deadlock:
				o.Verdict = "deadlock: a goroutine is blocked forever"
			case s.Aborted:
				o.Verdict = "step horizon exceeded (livelock or a call that never returns)"
			}
			var sb strings.Builder
			for ti := range got {
				for ci := range got[ti] {
					sb.WriteString(got[ti][ci] + ";")
					if o.Verdict == "" && o.Harness == "" && got[ti][ci] != exp[ti][ci] {
						o.Verdict = fmt.Sprintf("goroutine %d call %s returned %s; alone on a fresh Regexp it returns %s", ti, sc.threads[ti][ci].name, got[ti][ci], exp[ti][ci])
					}
				}
				sb.WriteByte('|')
			}
			// the observable outcome also includes the interleaving class: which pool answers were taken
			dev := 0
			for _, p := range s.Trace {
				if p.Kind != 's' && p.Chosen != 0 {
					dev++
				}
			}
			o.Outcome = fmt.Sprintf("%s dev=%d", sb.String(), dev)
			return o
		}})
	}
	return out
}

func c11Describe(sc c11scen) string {
	var parts []string
	for _, th := range sc.threads {
		var cs []string
		for _, c := range th {
			cs = append(cs, c.name)
		}
		parts = append(parts, strings.Join(cs, "; "))
	}
	s := strings.Join(parts, " || ")
	if len(s) > 160 {
		s = s[:160] + "..."
	}
	return s
}

func runC11(c *Ctx) {
	if len(os.Args) > 2 && os.Getenv("RXS_RACE_LEG") == "1" {
		os.Exit(c11RaceLeg(c.Tier))
	}
	c.Level = "model_checking"
	c.Rule = "scenarios of 2-3 goroutines x 1-2 calls each, forced to collide on one Regexp's runner pool, the quick/full program switch, the replacement cache (smaller than the set of replacements), the global size-classed buffer pools (two Regexps, inputs in the same class), the stack limit, the timeout clock and the balancing-group state; every interleaving at sync / atomic / pool / time operations and at every k-th interpreter step up to the preemption bound, and every pool answer (any pooled item, a miss, a dropped Put) up to the deviation bound, is executed on the real code; oracle: every call returns exactly what it returns alone on a fresh Regexp, no deadlock. Auxiliary leg (not exhaustive, labelled as such): the same scenario bodies free-running under the race detector. A scenario is non-trivial when its executions show more than one distinct outcome class."
	c.Assume("the scheduler is sequentially consistent and sees only sync/atomic/pool/time operations and interpreter steps; unsynchronised plain accesses are the race-detector leg's business")
	c.Assume("quick: preemption bound 3 for two goroutines and 2 for three, deviation bound 1; thorough: one more preemption and deviation bound 2; an execution cap of 120000 per scenario is reported when hit")
	runSched(c, "C11")
	c11RunRaceLeg(c)
}

// ---- auxiliary free-running race-detector leg ----

func c11RunRaceLeg(c *Ctx) {
	bin := os.Getenv("RXS_RACE_BIN")
	if bin == "" {
		c.extra["race_leg"] = "not run (no race-instrumented binary was built)"
		return
	}
	cmd := exec.Command(bin, "C11", "-tier", c.Tier)
	cmd.Env = append(os.Environ(), "RXS_RACE_LEG=1", "GORACE=halt_on_error=0 exitcode=66")
	outb, err := cmd.CombinedOutput()
	out := string(outb)
	races := strings.Count(out, "WARNING: DATA RACE")
	c.extra["race_leg"] = map[string]any{"exhaustive": false, "data_races_reported": races, "summary": lastLine(out)}
	if races > 0 {
		i := strings.Index(out, "WARNING: DATA RACE")
		excerpt := out[i:]
		if len(excerpt) > 1800 {
			excerpt = excerpt[:1800]
		}
		c.Report(Violation{Leg: "race", Key: "race|" + firstFrames(excerpt), Detail: "the race detector reports a data race in a free-running run of the C11 scenarios:\n" + excerpt})
		return
	}
	if strings.Contains(out, "MISMATCH") {
		i := strings.Index(out, "MISMATCH")
		excerpt := out[i:]
		if len(excerpt) > 600 {
			excerpt = excerpt[:600]
		}
		c.Report(Violation{Leg: "free-running", Key: "free-running|" + firstLineOf(excerpt), Detail: excerpt})
		return
	}
	if err != nil {
		c.NotExhaustive("race leg ended abnormally: " + err.Error() + " " + lastLine(out))
	}
}

func lastLine(s string) string {
	s = strings.TrimSpace(s)
	if i := strings.LastIndexByte(s, '\n'); i >= 0 {
		return s[i+1:]
	}
	return s
}
func firstLineOf(s string) string {
	if i := strings.IndexByte(s, '\n'); i >= 0 {
		return s[:i]
	}
	return s
}

// firstFrames extracts the two racing top frames to key the finding.
func firstFrames(ex string) string {
	var fr []string
	for _, l := range strings.Split(ex, "\n") {
		l = strings.TrimSpace(l)
		if strings.HasPrefix(l, "github.com/dlclark/regexp2") && len(fr) < 2 {
			fr = append(fr, strings.SplitN(l, "(", 2)[0])
		}
	}
	return strings.Join(fr, "~")
}

// c11RaceLeg runs in the race-instrumented binary: real goroutines, real sync (shims pass through).
func c11RaceLeg(tier string) int {
	reps := 300
	if tier == "thorough" {
		reps = 3000
	}
	total := 0
	for _, procs := range []int{2, 4, 16} {
		runtime.GOMAXPROCS(procs)
		for _, sc := range c11List(tier) {
			// expected values from sequential free-running execution
			exp := make([][]string, len(sc.threads))
			for ti, th := range sc.threads {
				for _, call := range th {
					exp[ti] = append(exp[ti], call.f(sc.build()))
				}
			}
			for r := 0; r < reps; r++ {
				w := sc.build()
				var wg sync.WaitGroup
				var mu sync.Mutex
				bad := ""
				for ti := range sc.threads {
					wg.Add(1)
					go func(ti int) {
						defer wg.Done()
						for ci, call := range sc.threads[ti] {
							if r%3 == 1 {
								runtime.Gosched()
							}
							if got := call.f(w); got != exp[ti][ci] {
								mu.Lock()
								bad = fmt.Sprintf("MISMATCH scenario %s goroutine %d %s: got %s want %s", sc.name, ti, call.name, got, exp[ti][ci])
								mu.Unlock()
							}
						}
					}(ti)
				}
				wg.Wait()
				total++
				if bad != "" {
					fmt.Println(bad)
					return 1
				}
			}
		}
	}
	fmt.Printf("race leg: %d free-running concurrent executions, no mismatch\n", total)
	return 0
}
