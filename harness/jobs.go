package main

// Generic (family x options x profile x input bound) job runner shared by the differential checks.

import (
	"fmt"
	"os"
	"strings"
	"sync"
	"sync/atomic"
	"unicode/utf8"

	regexp2 "github.com/dlclark/regexp2/v2"
)

// langCapped counts text patterns whose pattern-derived input set hit langMaxInputs (reported in the evidence).
var langCapped int64

type job struct {
	fam   string
	pats  []Pat
	opts  optSet
	prof  profile
	maxL  int
	extra []regexp2.CompileOption
	tag   string
}

type jobCase struct {
	j      *job
	p      Pat
	ast    *Node // renamed tree (nil for text patterns)
	src    string
	inputs [][]rune
}

// runJobs enumerates every pattern of every job. each returns (evaluations, non-trivial, first disagreement).
func (c *Ctx) runJobs(jobs []job, each func(jc *jobCase) (int64, int64, *Violation)) {
	samples := 0
	for ji := range jobs {
		jb := &jobs[ji]
		famName := fmt.Sprintf("%s opts=%q %s L<=%d%s", jb.fam, string(jb.opts), jb.prof.name, jb.maxL, jb.tag)
		if only := os.Getenv("VERIF_ONLY_FAM"); only != "" && !strings.Contains(famName, only) {
			// triage aid: restrict a run to the families whose name contains the given text
			c.NotExhaustive("family filter VERIF_ONLY_FAM skipped " + famName)
			continue
		}
		if c.Expired() {
			c.NotExhaustive("internal deadline reached before " + famName)
			continue
		}
		fs := c.Fam(famName)
		var inputs [][]rune
		if jb.prof.input != nil {
			raw := allStrings(jb.prof.input, jb.maxL)
			inputs = make([][]rune, len(raw))
			for i, in := range raw {
				inputs[i] = renameRunes(in, jb.prof.m)
			}
		}
		spaced := jb.opts.has('x')
		var fp, fe, fn, fhit, fmiss int64
		var once sync.Once
		done := c.parallel(len(jb.pats), func(i int) {
			p := jb.pats[i]
			jc := &jobCase{j: jb, p: p, inputs: inputs, src: p.Src}
			if jb.prof.input == nil { // text patterns: per-pattern alphabet plus pattern-derived inputs (lang.go)
				jc.inputs = allStrings(patternAlphabet(p.Src), jb.maxL)
				li, _, capped := langInputs(p.Src, jb.opts)
				have := map[string]bool{}
				for _, in := range jc.inputs {
					have[string(in)] = true
				}
				for _, in := range li {
					if !have[string(in)] {
						jc.inputs = append(jc.inputs, in)
					}
				}
				if capped {
					atomic.AddInt64(&langCapped, 1)
				}
				// vacuity guard: does the pattern match on at least one of its inputs?
				if re, err := regexp2.Compile(p.Src, append(jb.opts.compileOptions(), jb.extra...)...); err == nil {
					hit := false
					for _, in := range jc.inputs {
						if ok, _ := re.MatchRunes(in); ok {
							hit = true
							break
						}
					}
					if hit {
						atomic.AddInt64(&fhit, 1)
					} else {
						atomic.AddInt64(&fmiss, 1)
					}
				}
			}
			if p.AST != nil {
				jc.ast = p.AST
				if jb.prof.m != nil {
					jc.ast = rename(p.AST, jb.prof.m)
				}
				jc.src = jc.ast.Print(printOpts{spaced: spaced})
			}
			n, nt, bad := each(jc)
			atomic.AddInt64(&fp, 1)
			atomic.AddInt64(&fe, n)
			atomic.AddInt64(&fn, nt)
			if bad != nil {
				if bad.Pattern == "" {
					bad.Pattern = jc.src
				}
				bad.Options = string(jb.opts)
				if bad.Key == "" {
					bad.Key = bad.Leg + "|" + string(jb.opts) + "|" + jc.src
				}
				c.Report(*bad)
			}
			if samples < 10 && i == len(jb.pats)*2/3 {
				once.Do(func() {
					samples++
					c.Sample(map[string]any{"family": famName, "pattern": jc.src, "inputs": len(jc.inputs), "example_input": string(jc.inputs[len(jc.inputs)/2])})
				})
			}
		}, func(i int, r any) {
			p := jb.pats[i]
			c.Report(Violation{Leg: "panic", Key: "panic|" + string(jb.opts) + "|" + p.Src, Pattern: p.Src, Options: string(jb.opts), Detail: panicText(r) + " (profile " + jb.prof.name + ")"})
		})
		fs.Patterns, fs.Evaluations, fs.Nontrivial, fs.Complete = fp, fe, fn, done
		if jb.prof.input == nil {
			fs.Note = fmt.Sprintf("%d of the compiling patterns match on at least one of their inputs, %d on none", fhit, fmiss)
			c.Outcome("text patterns matching on at least one of their inputs", fhit)
			c.Outcome("text patterns matching on none of their inputs", fmiss)
		}
		if !done {
			c.NotExhaustive("internal deadline reached inside " + famName)
		}
		c.Eval(fe)
		c.Nontrivial(fn)
		c.Outcome("points that are non-trivial by the check's rule", fn)
		c.Outcome("other points (oracle evaluated, trivially satisfied)", fe-fn)
	}
}

// byteOffsets returns, for a rune slice, the byte offset of every rune index in string(runes).
func byteOffsets(in []rune) []int {
	off := make([]int, len(in)+1)
	b := 0
	for i, r := range in {
		off[i] = b
		b += utf8.RuneLen(r)
	}
	off[len(in)] = b
	return off
}

func vio(leg string, in []rune, st int, format string, a ...any) *Violation {
	return &Violation{Leg: leg, Input: qr(in), Detail: fmt.Sprintf("start=%d ", st) + fmt.Sprintf(format, a...), Extra: map[string]any{"input_runes": in, "start": st}}
}
