package main

// Match-chain helpers shared by C02, C07, C08, C09.

import (
	"fmt"

	regexp2 "github.com/dlclark/regexp2/v2"
)

type chainRes struct {
	ms    []mres
	raw   []*regexp2.Match
	err   string // first error
	nterm bool   // did not terminate within len+2 steps
}

// walkChain follows FindNextMatch from first (may be nil).
func walkChain(re *regexp2.Regexp, first *regexp2.Match, err error, inputLen int) chainRes {
	var c chainRes
	if err != nil {
		c.err = err.Error()
		return c
	}
	for m := first; m != nil; {
		c.ms = append(c.ms, fromMatch(m, nil))
		c.raw = append(c.raw, m)
		if len(c.ms) > inputLen+2 {
			c.nterm = true
			return c
		}
		m, err = re.FindNextMatch(m)
		if err != nil {
			c.err = err.Error()
			return c
		}
	}
	return c
}

// findAllExpected: the chain minus empty matches adjacent to the preceding match, truncated to n (n<0: all).
// Adjacent = the empty match lies where the preceding match ended in scan direction
// (its end for left-to-right, its start for right-to-left).
func findAllExpected(ms []mres, n int, rtl bool) [][2]int {
	if n == 0 {
		return nil
	}
	var out [][2]int
	prev := -1
	for _, m := range ms {
		if m.ln != 0 || m.idx != prev {
			out = append(out, [2]int{m.idx, m.idx + m.ln})
			if n > 0 && len(out) == n {
				break
			}
		}
		if rtl {
			prev = m.idx
		} else {
			prev = m.idx + m.ln
		}
	}
	return out
}

func pairsOf(x [][]int) [][2]int {
	if x == nil {
		return nil
	}
	out := make([][2]int, len(x))
	for i, p := range x {
		if len(p) != 2 {
			return [][2]int{{-99, len(p)}}
		}
		out[i] = [2]int{p[0], p[1]}
	}
	return out
}

func samePairs(a, b [][2]int) bool {
	if len(a) != len(b) {
		return false
	}
	for i := range a {
		if a[i] != b[i] {
			return false
		}
	}
	return true
}

func chainString(ms []mres) string {
	s := "["
	for i, m := range ms {
		if i > 0 {
			s += " "
		}
		s += fmt.Sprintf("(%d,+%d)", m.idx, m.ln)
	}
	return s + "]"
}
