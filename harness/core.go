package main

// Shared runner machinery: parallel enumeration, violation bookkeeping, known findings,
// evidence files, replay artefacts.

import (
	"encoding/json"
	"fmt"
	"os"
	"path/filepath"
	"runtime"
	"sort"
	"strconv"
	"strings"
	"sync"
	"sync/atomic"
	"time"

	regexp2 "github.com/dlclark/regexp2/v2"
)

const verifDir = "/verif"

// outDir is where evidence and replay artefacts are written (/verif unless VERIF_OUT redirects a
// scratch run, e.g. a run against a seeded change, away from the committed evidence).
var outDir = envOr("VERIF_OUT", verifDir)

func envOr(k, d string) string {
	if v := os.Getenv(k); v != "" {
		return v
	}
	return d
}

// Violation is one disagreement between the implementation and an oracle.
type Violation struct {
	Property string         `json:"property"`
	Leg      string         `json:"leg"`
	Key      string         `json:"key"` // exact identity used for known-finding lookup
	Pattern  string         `json:"pattern,omitempty"`
	Options  string         `json:"options,omitempty"`
	Input    string         `json:"input,omitempty"` // %q form
	Detail   string         `json:"detail"`
	Extra    map[string]any `json:"extra,omitempty"`
}

type knownFinding struct {
	Property string `json:"property"`
	Key      string `json:"key"`
	What     string `json:"what"`
	Status   string `json:"status"` // known | fixed
	Commit   string `json:"commit,omitempty"`
}

type famStat struct {
	Patterns    int64  `json:"patterns"`
	Evaluations int64  `json:"evaluations"`
	Nontrivial  int64  `json:"nontrivial"`
	Complete    bool   `json:"complete"`
	Note        string `json:"note,omitempty"`
}

// Ctx is the state of one check run.
type Ctx struct {
	ID       string
	Tier     string
	Seed     int64
	Level    string
	Rule     string
	Start    time.Time
	Deadline time.Time

	evals      atomic.Int64
	nontrivial atomic.Int64

	mu          sync.Mutex
	violations  []Violation
	violKeys    map[string]bool
	violTotal   int64
	knownHit    map[string]string
	samples     []any
	outcomes    map[string]int64
	fams        map[string]*famStat
	famOrder    []string
	assumptions []string
	extra       map[string]any
	exhaustive  bool
	capped      []string
	known       map[string]knownFinding
}

func newCtx(id, tier string) *Ctx {
	seed, _ := strconv.ParseInt(os.Getenv("VERIF_SEED"), 10, 64)
	c := &Ctx{ID: id, Tier: tier, Seed: seed, Start: time.Now(), violKeys: map[string]bool{}, knownHit: map[string]string{},
		outcomes: map[string]int64{}, fams: map[string]*famStat{}, extra: map[string]any{}, exhaustive: true, known: map[string]knownFinding{}}
	c.loadKnown()
	return c
}

func (c *Ctx) loadKnown() {
	b, err := os.ReadFile(filepath.Join(verifDir, "known_findings.json"))
	if err != nil {
		return
	}
	var kf struct {
		Findings []knownFinding `json:"findings"`
	}
	if err := json.Unmarshal(b, &kf); err != nil {
		fmt.Fprintln(os.Stderr, "known_findings.json:", err)
		os.Exit(2)
	}
	for _, f := range kf.Findings {
		if f.Property == c.ID && f.Status == "known" {
			c.known[f.Key] = f
		}
	}
}

// SetBudget sets the internal deadline; work loops poll Expired().
func (c *Ctx) SetBudget(d time.Duration) {
	if s := os.Getenv("VERIF_BUDGET_S"); s != "" {
		if v, err := strconv.Atoi(s); err == nil {
			d = time.Duration(v) * time.Second
		}
	}
	c.Deadline = c.Start.Add(d)
}
func (c *Ctx) Expired() bool { return !c.Deadline.IsZero() && time.Now().After(c.Deadline) }

func (c *Ctx) Eval(n int64)       { c.evals.Add(n) }
func (c *Ctx) Nontrivial(n int64) { c.nontrivial.Add(n) }

func (c *Ctx) Outcome(k string, n int64) {
	c.mu.Lock()
	c.outcomes[k] += n
	c.mu.Unlock()
}

func (c *Ctx) Sample(s any) {
	c.mu.Lock()
	if len(c.samples) < 12 {
		c.samples = append(c.samples, s)
	}
	c.mu.Unlock()
}

func (c *Ctx) Assume(s string) { c.assumptions = append(c.assumptions, s) }

func (c *Ctx) Fam(name string) *famStat {
	c.mu.Lock()
	defer c.mu.Unlock()
	f := c.fams[name]
	if f == nil {
		f = &famStat{}
		c.fams[name] = f
		c.famOrder = append(c.famOrder, name)
	}
	return f
}

func (c *Ctx) NotExhaustive(why string) {
	c.mu.Lock()
	c.exhaustive = false
	c.capped = append(c.capped, why)
	c.mu.Unlock()
}

const maxRecordedViolations = 40

// Report records a violation unless its key is a listed known finding.
func (c *Ctx) Report(v Violation) {
	v.Property = c.ID
	c.mu.Lock()
	defer c.mu.Unlock()
	if kf, ok := c.known[v.Key]; ok {
		if _, seen := c.knownHit[v.Key]; !seen {
			c.knownHit[v.Key] = kf.What
		}
		return
	}
	if c.violKeys[v.Key] {
		return
	}
	c.violKeys[v.Key] = true
	c.violTotal++
	if len(c.violations) < maxRecordedViolations {
		c.violations = append(c.violations, v)
	}
}

func (c *Ctx) Violated() bool {
	c.mu.Lock()
	defer c.mu.Unlock()
	return c.violTotal > 0
}

// parallel runs fn(i) for i in [0,n) on all cores; a panic in fn is reported through onPanic.
// The visiting order is rotated by the seed (the visited set is seed independent).
func (c *Ctx) parallel(n int, fn func(i int), onPanic func(i int, r any)) (completed bool) {
	W := runtime.NumCPU()
	if W > 16 {
		W = 16
	}
	var next atomic.Int64
	var wg sync.WaitGroup
	var stopped atomic.Bool
	rot := 0
	if n > 0 {
		rot = int(uint64(c.Seed) % uint64(n))
	}
	// watchdog: code without a step hook (Compile, Escape, the parsers) can loop forever; a goroutine cannot be
	// killed, so an item that is still running after stuckLimit is reported as non-termination and the process
	// ends with the normal violation exit path
	cur := make([]atomic.Int64, W)   // item index + 1 (0 = idle)
	since := make([]atomic.Int64, W) // unix nanoseconds at which that item started
	quit := make(chan struct{})
	go func() {
		t := time.NewTicker(2 * time.Second)
		defer t.Stop()
		for {
			select {
			case <-quit:
				return
			case <-t.C:
				for w := 0; w < W; w++ {
					i := cur[w].Load()
					if i != 0 && time.Now().UnixNano()-since[w].Load() > int64(stuckLimit()) {
						if onPanic != nil {
							onPanic(int(i-1), fmt.Sprintf("non-termination: this case was still running after %v (no step hook on this path, e.g. an endless loop in Compile)", stuckLimit()))
						}
						c.NotExhaustive("a case did not terminate; the run was ended by the watchdog")
						os.Exit(c.Finish())
					}
				}
			}
		}
	}()
	defer close(quit)
	for w := 0; w < W; w++ {
		wg.Add(1)
		w := w
		go func() {
			defer wg.Done()
			defer cur[w].Store(0)
			for {
				k := int(next.Add(1)) - 1
				if k >= n {
					return
				}
				if k&63 == 0 && c.Expired() {
					stopped.Store(true)
				}
				if stopped.Load() {
					return
				}
				i := (k + rot) % n
				since[w].Store(time.Now().UnixNano())
				cur[w].Store(int64(i) + 1)
				func() {
					defer func() {
						if r := recover(); r != nil {
							if onPanic != nil {
								onPanic(i, r)
							}
						}
					}()
					fn(i)
				}()
			}
		}()
	}
	wg.Wait()
	return !stopped.Load()
}

// stuckLimit is the wall-clock time after which one enumerated case counts as non-terminating (VERIF_STUCK_S).
func stuckLimit() time.Duration {
	if v, err := strconv.Atoi(os.Getenv("VERIF_STUCK_S")); err == nil && v > 0 {
		return time.Duration(v) * time.Second
	}
	return 120 * time.Second
}

func panicText(r any) string {
	if b, ok := r.(regexp2.VerifStepBudgetExceeded); ok {
		return fmt.Sprintf("step budget exceeded (%d steps in one scan): treated as non-termination", b.Steps)
	}
	s := fmt.Sprint(r)
	if len(s) > 300 {
		s = s[:300]
	}
	return "panic: " + s
}

// Finish writes the evidence file and replay artefacts and returns the exit code.
func (c *Ctx) Finish() int {
	wall := time.Since(c.Start).Seconds()
	c.mu.Lock()
	defer c.mu.Unlock()

	famOut := map[string]*famStat{}
	for _, n := range c.famOrder {
		famOut[n] = c.fams[n]
	}
	cov := map[string]any{
		"evaluations":         c.evals.Load(),
		"distinct_nontrivial": c.nontrivial.Load(),
		"rule":                c.Rule,
		"samples":             c.samples,
		"exhaustive":          c.exhaustive,
		"families":            famOut,
		"distinct_outcomes":   c.outcomes,
	}
	if len(c.capped) > 0 {
		cov["caps_hit"] = c.capped
	}
	for k, v := range c.extra {
		cov[k] = v
	}
	if len(c.samples) == 0 {
		cov["samples"] = []any{"(no case was explored)"}
	}
	var knownLines []string
	for k, what := range c.knownHit {
		knownLines = append(knownLines, fmt.Sprintf("%s [%s]", what, k))
	}
	sort.Strings(knownLines)
	ev := map[string]any{
		"property_id":    c.ID,
		"tier":           c.Tier,
		"seed":           c.Seed,
		"level":          c.Level,
		"coverage":       cov,
		"assumptions":    append([]string{"bounded exploration: nothing is claimed beyond the listed bounds"}, c.assumptions...),
		"wall_s":         wall,
		"violations":     c.violTotal,
		"known_findings": knownLines,
	}
	if len(c.violations) > 0 {
		ev["violation_samples"] = c.violations
	}
	b, _ := json.MarshalIndent(ev, "", " ")
	os.MkdirAll(filepath.Join(outDir, "evidence"), 0o755)
	tmp := filepath.Join(outDir, "evidence", c.ID+".json.tmp")
	if err := os.WriteFile(tmp, b, 0o644); err == nil {
		os.Rename(tmp, filepath.Join(outDir, "evidence", c.ID+".json"))
	}

	for _, l := range knownLines {
		fmt.Printf("KNOWN-FINDING: property=%s %s\n", c.ID, l)
	}
	fmt.Printf("%s %s: evaluations=%d nontrivial=%d exhaustive=%v violations=%d wall=%.1fs\n", c.ID, c.Tier, c.evals.Load(), c.nontrivial.Load(), c.exhaustive, c.violTotal, wall)
	for _, n := range c.famOrder {
		f := c.fams[n]
		fmt.Printf("  family %-14s patterns=%-8d evaluations=%-11d nontrivial=%-9d complete=%v %s\n", n, f.Patterns, f.Evaluations, f.Nontrivial, f.Complete, f.Note)
	}
	os.MkdirAll(filepath.Join(outDir, "replays"), 0o755)
	if old, _ := filepath.Glob(filepath.Join(outDir, "replays", c.ID+"-*.json")); len(old) > 0 {
		for _, f := range old {
			os.Remove(f) // artefacts of earlier runs of this check
		}
	}
	if c.violTotal == 0 {
		return 0
	}
	sort.SliceStable(c.violations, func(i, j int) bool {
		a, b := c.violations[i], c.violations[j]
		if len(a.Pattern)+len(a.Input) != len(b.Pattern)+len(b.Input) {
			return len(a.Pattern)+len(a.Input) < len(b.Pattern)+len(b.Input)
		}
		return a.Key < b.Key
	})
	for i, v := range c.violations {
		p := filepath.Join(outDir, "replays", fmt.Sprintf("%s-%d.json", c.ID, i))
		vb, _ := json.MarshalIndent(v, "", " ")
		os.WriteFile(p, vb, 0o644)
		if i < 10 {
			fmt.Printf("VIOLATION property=%s replay=%s\n", c.ID, p)
			fmt.Printf("  leg=%s pattern=%q options=%s input=%s: %s\n", v.Leg, v.Pattern, v.Options, v.Input, v.Detail)
		}
	}
	if c.violTotal > 10 {
		fmt.Printf("  ... %d distinct violating keys in total (first %d written to replays/)\n", c.violTotal, len(c.violations))
	}
	return 1
}

// ---- small helpers shared by the checks ----

func q(s string) string { return strconv.Quote(s) }

func qr(r []rune) string { return strconv.Quote(string(r)) }

// allStrings returns every string over alpha of length 0..maxLen, shortest first.
func allStrings(alpha []rune, maxLen int) [][]rune {
	out := [][]rune{{}}
	prev := [][]rune{{}}
	for l := 1; l <= maxLen; l++ {
		var cur [][]rune
		for _, p := range prev {
			for _, a := range alpha {
				s := make([]rune, len(p)+1)
				copy(s, p)
				s[len(p)] = a
				cur = append(cur, s)
			}
		}
		out = append(out, cur...)
		prev = cur
	}
	return out
}

func allByteStrings(units []string, maxLen int) []string {
	out := []string{""}
	prev := []string{""}
	for l := 1; l <= maxLen; l++ {
		var cur []string
		for _, p := range prev {
			for _, u := range units {
				cur = append(cur, p+u)
			}
		}
		out = append(out, cur...)
		prev = cur
	}
	return out
}

// optSet is a set of regex options written with the usual letters plus
// R=RightToLeft, E=ECMAScript, 2=RE2, U=Unicode, D=Debug(never), G=code-gen analysis, B=no ASCII bitmap,
// O=MaintainCaptureOrder.
type optSet string

func (o optSet) has(b byte) bool { return strings.IndexByte(string(o), b) >= 0 }

func (o optSet) compileOptions() []regexp2.CompileOption {
	var out []regexp2.CompileOption
	for i := 0; i < len(o); i++ {
		switch o[i] {
		case 'i':
			out = append(out, regexp2.IgnoreCase)
		case 'm':
			out = append(out, regexp2.Multiline)
		case 's':
			out = append(out, regexp2.Singleline)
		case 'n':
			out = append(out, regexp2.ExplicitCapture)
		case 'x':
			out = append(out, regexp2.IgnorePatternWhitespace)
		case 'R':
			out = append(out, regexp2.RightToLeft)
		case 'E':
			out = append(out, regexp2.ECMAScript)
		case '2':
			out = append(out, regexp2.RE2)
		case 'U':
			out = append(out, regexp2.Unicode)
		case 'G':
			out = append(out, regexp2.OptionIsCodeGen())
		case 'B':
			out = append(out, regexp2.OptionDisableCharClassASCIIBitmap())
		case 'O':
			out = append(out, regexp2.OptionMaintainCaptureOrder())
		}
	}
	return out
}

func compileWith(p string, o optSet, extra ...regexp2.CompileOption) (*regexp2.Regexp, error) {
	return regexp2.Compile(p, append(o.compileOptions(), extra...)...)
}

// subsets returns all subsets of the given option letters, smallest first.
func subsets(letters string) []optSet {
	n := len(letters)
	var out []optSet
	for m := 0; m < 1<<n; m++ {
		var sb strings.Builder
		for i := 0; i < n; i++ {
			if m&(1<<i) != 0 {
				sb.WriteByte(letters[i])
			}
		}
		out = append(out, optSet(sb.String()))
	}
	sort.SliceStable(out, func(i, j int) bool { return len(out[i]) < len(out[j]) })
	return out
}

// mres is a match result in comparable form.
type mres struct {
	ok      bool
	idx, ln int
	caps    [][][2]int // per group slot (Groups() order), the capture list
	err     string
}

func fromMatch(m *regexp2.Match, err error) mres {
	if err != nil {
		return mres{err: err.Error()}
	}
	if m == nil {
		return mres{}
	}
	r := mres{ok: true, idx: m.RuneIndex, ln: m.RuneLength}
	gs := m.Groups()
	r.caps = make([][][2]int, len(gs))
	for i := range gs {
		for _, cp := range gs[i].Captures {
			r.caps[i] = append(r.caps[i], [2]int{cp.RuneIndex, cp.RuneLength})
		}
	}
	return r
}

func (a mres) equal(b mres) bool {
	if a.err != b.err || a.ok != b.ok {
		return false
	}
	if !a.ok {
		return true
	}
	if a.idx != b.idx || a.ln != b.ln || len(a.caps) != len(b.caps) {
		return false
	}
	for i := range a.caps {
		if len(a.caps[i]) != len(b.caps[i]) {
			return false
		}
		for j := range a.caps[i] {
			if a.caps[i][j] != b.caps[i][j] {
				return false
			}
		}
	}
	return true
}

func (a mres) String() string {
	if a.err != "" {
		return "error(" + a.err + ")"
	}
	if !a.ok {
		return "nomatch"
	}
	var sb strings.Builder
	fmt.Fprintf(&sb, "match[%d,+%d]", a.idx, a.ln)
	for i := 1; i < len(a.caps); i++ {
		fmt.Fprintf(&sb, " g%d=%v", i, a.caps[i])
	}
	return sb.String()
}
