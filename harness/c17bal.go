package main

// C17, family BALANCE: group numbering and the name/number map when balancing groups take part. A balancing group
// (?<x-y>..) introduces (or re-uses) the name x exactly like a named group does, (?<-y>..) introduces nothing; the
// capture pre-scan, the main parse and the program writer each keep their own idea of "the next number" and have to
// agree (seed C17_5: under MaintainCaptureOrder the main parse did not count a balancing group that introduces a name).
//
// Bounded-exhaustive: EVERY flat sequence of 2..K groups over the menu below whose pops always find a capture, group
// i matching the i-th letter of the witness, x option sets. The model is three short rules: (1) numbering as in
// c17RefNumbers (a balancing group counts as a named group of its left name; a pure pop has no number); (2) capture
// stacks: a named / unnamed group pushes its own span, (?<x-y>..) pops y's last capture (s,l) and pushes [s+l, start of
// the balancing group) on x (the documented "text between y and the balancing group"), (?<-y>..) only pops; (3) a
// group's value is its last remaining capture, "" when none.

import (
	"fmt"
	"sort"
	"strconv"
	"strings"
	"sync/atomic"

	regexp2 "github.com/dlclark/regexp2/v2"
)

type c17balKind struct {
	open      string
	push, pop string // names ("" = none); push "#" = unnamed
}

var c17balMenu = []c17balKind{
	{"(", "#", ""},
	{"(?<n>", "n", ""},
	{"(?<m>", "m", ""},
	{"(?<b-n>", "b", "n"},
	{"(?<-n>", "", "n"},
	{"(?<m-n>", "m", "n"},
	{"(?'c-m'", "c", "m"},
}

type c17balModel struct {
	numbers []int
	names   map[int]string
	caps    map[int][][2]int
}

// c17balRef returns nil when the sequence is not admissible (a pop without a capture to pop).
func c17balRef(seq []int, explicit, order bool) *c17balModel {
	k := len(seq)
	// numbering
	num := make([]int, k) // number pushed to by group i, 0 = none
	byName := map[string]int{}
	auto := 1
	if order {
		for i, s := range seq {
			g := c17balMenu[s]
			switch {
			case g.push == "#":
				if !explicit {
					num[i] = auto
					auto++
				}
			case g.push != "":
				if byName[g.push] == 0 {
					byName[g.push] = auto
					auto++
				}
				num[i] = byName[g.push]
			}
		}
	} else {
		for i, s := range seq {
			if c17balMenu[s].push == "#" && !explicit {
				num[i] = auto
				auto++
			}
		}
		for i, s := range seq {
			if g := c17balMenu[s]; g.push != "" && g.push != "#" {
				if byName[g.push] == 0 {
					byName[g.push] = auto
					auto++
				}
				num[i] = byName[g.push]
			}
		}
	}
	md := &c17balModel{names: map[int]string{0: "0"}, caps: map[int][][2]int{0: {{0, k}}}}
	for i := range seq {
		if num[i] > 0 {
			md.names[num[i]] = strconv.Itoa(num[i])
		}
	}
	for nm, n := range byName {
		md.names[n] = nm
	}
	for n := range md.names {
		md.numbers = append(md.numbers, n)
	}
	sort.Ints(md.numbers)
	// capture stacks
	for i, s := range seq {
		g := c17balMenu[s]
		start := i
		if g.pop != "" {
			pn, ok := byName[g.pop]
			if !ok || len(md.caps[pn]) == 0 {
				return nil
			}
			st := md.caps[pn]
			top := st[len(st)-1]
			md.caps[pn] = st[:len(st)-1]
			if num[i] > 0 {
				e2 := top[0] + top[1]
				md.caps[num[i]] = append(md.caps[num[i]], [2]int{e2, start - e2})
			}
			continue
		}
		if num[i] > 0 {
			md.caps[num[i]] = append(md.caps[num[i]], [2]int{start, 1})
		}
	}
	return md
}

func c17balPattern(seq []int) string {
	var sb strings.Builder
	for i, s := range seq {
		sb.WriteString(c17balMenu[s].open)
		sb.WriteByte(byte('a' + i))
		sb.WriteByte(')')
	}
	return sb.String()
}

func c17balCheck(seq []int, o optSet) (vs []*Violation, evals int64, admissible bool) {
	k := len(seq)
	md := c17balRef(seq, o.has('n'), o.has('O'))
	if md == nil {
		return nil, 0, false
	}
	src := c17balPattern(seq)
	witness := "abcdef"[:k]
	failed := map[string]bool{}
	fail := func(leg, format string, a ...any) {
		if failed[leg] {
			return
		}
		failed[leg] = true
		vs = append(vs, &Violation{Leg: leg, Key: leg + "|" + string(o) + "|" + src, Pattern: src, Options: string(o), Input: q(witness),
			Detail: fmt.Sprintf(format, a...), Extra: map[string]any{"balseq": seq}})
	}
	re, err := compileWith(src, o)
	evals++
	if err != nil {
		fail("bal-compile", "enumerated pattern does not compile: %v", err)
		return vs, evals, true
	}
	m, err := re.FindStringMatch(witness)
	evals++
	if err != nil || m == nil || m.RuneIndex != 0 || m.RuneLength != k {
		fail("bal-witness", "the pattern must match its witness entirely; got %s", fromMatch(m, err))
		return vs, evals, true
	}
	nums, names := re.GetGroupNumbers(), re.GetGroupNames()
	if fmt.Sprint(nums) != fmt.Sprint(md.numbers) {
		fail("bal-numbers", "GetGroupNumbers=%v, reference numbering %v", nums, md.numbers)
		return vs, evals, true
	}
	for i, n := range nums {
		evals++
		if i >= len(names) || names[i] != md.names[n] {
			fail("bal-names", "GetGroupNames=%q; reference: number %d is called %q", names, n, md.names[n])
			return vs, evals, true
		}
		if got := re.GroupNumberFromName(md.names[n]); got != n {
			fail("bal-names", "GroupNumberFromName(%q)=%d, want %d", md.names[n], got, n)
		}
		if got := re.GroupNameFromNumber(n); got != md.names[n] {
			fail("bal-names", "GroupNameFromNumber(%d)=%q, want %q", n, got, md.names[n])
		}
	}
	groups := m.Groups()
	capsOf := func(g *regexp2.Group) string {
		if g == nil {
			return "<nil>"
		}
		var xs [][2]int
		for _, c := range g.Captures {
			xs = append(xs, [2]int{c.RuneIndex, c.RuneLength})
		}
		return fmt.Sprint(xs)
	}
	var repl, want strings.Builder
	for i, n := range nums {
		evals += 3
		exp := md.caps[n]
		var expList [][2]int
		expList = append(expList, exp...)
		wantS := fmt.Sprint(expList)
		text := ""
		if len(exp) > 0 {
			text = witness[exp[len(exp)-1][0] : exp[len(exp)-1][0]+exp[len(exp)-1][1]]
		}
		if i < len(groups) {
			if got := capsOf(&groups[i]); got != wantS || groups[i].String() != text {
				fail("bal-captures", "Groups()[%d] (number %d, name %q): captures %s value %q; reference %s value %q", i, n, md.names[n], got, groups[i].String(), wantS, text)
			}
		}
		if g := m.GroupByNumber(n); g == nil || capsOf(g) != wantS || g.String() != text {
			gs := "<nil>"
			if g != nil {
				gs = g.String()
			}
			fail("bal-captures", "GroupByNumber(%d): captures %s value %q; reference %s value %q", n, capsOf(g), gs, wantS, text)
		}
		if g := m.GroupByName(md.names[n]); g == nil || capsOf(g) != wantS {
			fail("bal-captures", "GroupByName(%q): captures %s; reference %s", md.names[n], capsOf(g), wantS)
		}
		repl.WriteString("[${" + md.names[n] + "}|$" + strconv.Itoa(n) + "]")
		want.WriteString("[" + text + "|" + text + "]")
	}
	got, err := re.Replace(witness, repl.String(), -1, -1)
	evals++
	if err != nil || got != want.String() {
		fail("bal-replace", "Replace(%q, %q) = %q, %v; reference %q", witness, repl.String(), got, err, want.String())
	}
	return vs, evals, true
}

func c17RunBalance(c *Ctx, maxK int) {
	M := len(c17balMenu)
	for _, o := range []optSet{"O", "", "On", "n", "2O"} {
		famName := fmt.Sprintf("BALANCE k<=%d opts=%q", maxK, string(o))
		fs := c.Fam(famName)
		fs.Complete = true
		var fp, fe, fn int64
		for k := 2; k <= maxK; k++ {
			if c.Expired() {
				fs.Complete = false
				c.NotExhaustive("internal deadline reached before " + famName)
				break
			}
			total := 1
			for i := 0; i < k; i++ {
				total *= M
			}
			decode := func(i int) []int {
				seq := make([]int, k)
				for d := k - 1; d >= 0; d-- {
					seq[d] = i % M
					i /= M
				}
				return seq
			}
			done := c.parallel(total, func(i int) {
				seq := decode(i)
				vs, ev, adm := c17balCheck(seq, o)
				if !adm {
					return
				}
				atomic.AddInt64(&fp, 1)
				atomic.AddInt64(&fe, ev)
				for _, s := range seq {
					if c17balMenu[s].pop != "" {
						atomic.AddInt64(&fn, 1)
						break
					}
				}
				for _, v := range vs {
					c.Outcome(fmt.Sprintf("violating cases opts=%q leg=%s", string(o), v.Leg), 1)
					c.Report(*v)
				}
			}, func(i int, rec any) {
				src := c17balPattern(decode(i))
				c.Report(Violation{Leg: "panic", Key: "panic|" + string(o) + "|" + src, Pattern: src, Options: string(o), Detail: panicText(rec), Extra: map[string]any{"balseq": decode(i)}})
			})
			if !done {
				fs.Complete = false
				c.NotExhaustive("internal deadline reached inside " + famName)
				break
			}
		}
		fs.Patterns += fp
		fs.Evaluations += fe
		fs.Nontrivial += fn
		c.Eval(fe)
		c.Nontrivial(fn)
		fs.Note = "admissible sequences (every pop finds a capture); non-trivial = sequences with at least one balancing group"
	}
}
