package main

// C04: every fact the compiler publishes about a pattern (min/max length, leading/trailing
// anchors, leading prefix(es), fixed-distance literal/sets, literal after loop, landmark chain,
// first-character set, Boyer-Moore prefix, anchor bits) holds at every position at which the
// compiled program actually matches.

import (
	"fmt"
	"strings"
	"time"
	"unicode"

	regexp2 "github.com/dlclark/regexp2/v2"
	"github.com/dlclark/regexp2/v2/syntax"
)

func init() {
	register("C04", runC04)
	replayers["C04"] = replayC04
}

func anchorHolds(t syntax.NodeType, in []rune, p, origin int, ecma bool) (bool, bool) {
	L := len(in)
	switch t {
	case syntax.NtBeginning:
		return p == 0, true
	case syntax.NtStart:
		return p == origin, true
	case syntax.NtBol:
		return p == 0 || in[p-1] == '\n', true
	case syntax.NtEol:
		return p == L || in[p] == '\n', true
	case syntax.NtEnd:
		return p == L, true
	case syntax.NtEndZ:
		return p == L || (p == L-1 && in[p] == '\n'), true
	case syntax.NtBoundary:
		a := p > 0 && isWordSpec(in[p-1])
		b := p < L && isWordSpec(in[p])
		return a != b, true
	case syntax.NtECMABoundary:
		a := p > 0 && isASCIIWord(in[p-1])
		b := p < L && isASCIIWord(in[p])
		return a != b, true
	}
	return true, false
}

func hasPrefixFold(text []rune, prefix []rune, fold bool) bool {
	if len(text) < len(prefix) {
		return false
	}
	for i, r := range prefix {
		if text[i] == r {
			continue
		}
		if fold && unicode.ToLower(text[i]) == unicode.ToLower(r) {
			continue
		}
		return false
	}
	return true
}

// c04Facts checks all published facts for one successful attempt at p (match [s,e)).
func c04Facts(re *regexp2.Regexp, in []rune, origin, p, s, e int, c *Ctx) string {
	code := re.VerifCode()
	f := code.FindOptimizations
	rtl := code.RightToLeft
	L := len(in)
	note := func(k string) { c.Outcome("fact-checked:"+k, 1) }
	if f != nil {
		if f.MinRequiredLength > 0 {
			note("MinRequiredLength")
			rem := L - p
			if rtl {
				rem = p
			}
			if rem < f.MinRequiredLength {
				return fmt.Sprintf("MinRequiredLength=%d but the program matches at %d with only %d runes of input in scan direction", f.MinRequiredLength, p, rem)
			}
		}
		if f.MaxPossibleLength >= 0 {
			note("MaxPossibleLength")
			if e-s > f.MaxPossibleLength {
				return fmt.Sprintf("MaxPossibleLength=%d but the match has length %d", f.MaxPossibleLength, e-s)
			}
		}
		if ok, known := anchorHolds(f.LeadingAnchor, in, p, origin, false); known {
			note("LeadingAnchor")
			if !ok {
				return fmt.Sprintf("LeadingAnchor=%v does not hold at match position %d", f.LeadingAnchor, p)
			}
		}
		if !rtl {
			if ok, known := anchorHolds(f.TrailingAnchor, in, e, origin, false); known && (f.TrailingAnchor == syntax.NtEnd || f.TrailingAnchor == syntax.NtEndZ) {
				note("TrailingAnchor")
				if !ok {
					return fmt.Sprintf("TrailingAnchor=%v does not hold at match end %d", f.TrailingAnchor, e)
				}
			}
		}
		if f.LeadingPrefix != "" {
			note("LeadingPrefix")
			pre := []rune(f.LeadingPrefix)
			fold := f.FindMode == syntax.LeadingString_OrdinalIgnoreCase_LeftToRight
			if !rtl {
				if !hasPrefixFold(in[p:], pre, fold) {
					return fmt.Sprintf("LeadingPrefix=%q is not a prefix of the text at match position %d", f.LeadingPrefix, p)
				}
			} else if p < len(pre) || !hasPrefixFold(in[p-len(pre):], pre, fold) {
				return fmt.Sprintf("LeadingPrefix=%q does not end at right-to-left match position %d", f.LeadingPrefix, p)
			}
		}
		if len(f.LeadingPrefixes) > 0 {
			note("LeadingPrefixes")
			fold := f.FindMode == syntax.LeadingStrings_OrdinalIgnoreCase_LeftToRight
			okAny := false
			for _, pre := range f.LeadingPrefixes {
				if hasPrefixFold(in[p:], []rune(pre), fold) {
					okAny = true
				}
			}
			if !okAny {
				return fmt.Sprintf("none of LeadingPrefixes=%q is a prefix of the text at match position %d", f.LeadingPrefixes, p)
			}
			if len(f.LeadingPrefixesRunes) != len(f.LeadingPrefixes) {
				return "LeadingPrefixesRunes and LeadingPrefixes differ in length"
			}
			for i := range f.LeadingPrefixes {
				if string(f.LeadingPrefixesRunes[i]) != f.LeadingPrefixes[i] {
					return "LeadingPrefixesRunes is not the rune form of LeadingPrefixes"
				}
			}
		}
		switch f.FindMode {
		case syntax.FixedDistanceString_LeftToRight:
			note("FixedDistanceLiteral.S")
			lit := []rune(f.FixedDistanceLiteral.S)
			q := p + f.FixedDistanceLiteral.Distance
			if q > L || !hasPrefixFold(in[q:], lit, false) {
				return fmt.Sprintf("FixedDistanceLiteral %q at distance %d is absent at match position %d", f.FixedDistanceLiteral.S, f.FixedDistanceLiteral.Distance, p)
			}
		case syntax.FixedDistanceChar_LeftToRight:
			note("FixedDistanceLiteral.C")
			q := p + f.FixedDistanceLiteral.Distance
			if q >= L || in[q] != f.FixedDistanceLiteral.C {
				return fmt.Sprintf("FixedDistanceLiteral %q at distance %d is absent at match position %d", f.FixedDistanceLiteral.C, f.FixedDistanceLiteral.Distance, p)
			}
		case syntax.LeadingChar_RightToLeft:
			note("LeadingChar_RightToLeft")
			if p < 1 || in[p-1] != f.FixedDistanceLiteral.C {
				return fmt.Sprintf("LeadingChar %q does not precede right-to-left match position %d", f.FixedDistanceLiteral.C, p)
			}
		}
		for _, fs := range f.FixedDistanceSets {
			note("FixedDistanceSets")
			q := p + fs.Distance
			if rtl {
				q = p - 1 - fs.Distance
			}
			if q < 0 || q >= L {
				return fmt.Sprintf("FixedDistanceSet at distance %d lies outside the input at match position %d", fs.Distance, p)
			}
			if fs.Set != nil && !fs.Set.CharIn(in[q]) {
				return fmt.Sprintf("FixedDistanceSet %s at distance %d does not contain %q (match position %d)", fs.Set.String(), fs.Distance, in[q], p)
			}
			// the summary forms used by the searchers must describe the same set
			if fs.Set != nil && (len(fs.Chars) > 0 || fs.Range != nil) {
				probe := []rune{in[q]}
				for r := rune(0); r < 128; r++ {
					probe = append(probe, r)
				}
				probe = append(probe, 'é', 'É', 0x1D538, 0x0301, 0xFFFD, 0x212A, 0x017F)
				for _, r := range probe {
					var sum bool
					if len(fs.Chars) > 0 {
						sum = false
						for _, ch := range fs.Chars {
							if ch == r {
								sum = true
							}
						}
					} else {
						sum = r >= fs.Range.First && r <= fs.Range.Last
					}
					if fs.Negated {
						sum = !sum
					}
					if sum != fs.Set.CharIn(r) {
						return fmt.Sprintf("FixedDistanceSet summary (Chars=%q Range=%v Negated=%v) disagrees with its set %s on %q", string(fs.Chars), fs.Range, fs.Negated, fs.Set.String(), r)
					}
				}
			}
		}
		if lal := f.LiteralAfterLoop; lal != nil && f.FindMode == syntax.LiteralAfterLoop_LeftToRight {
			note("LiteralAfterLoop")
			ok := false
			for k := p; k <= L; k++ {
				switch {
				case lal.String != "":
					if hasPrefixFold(in[k:], []rune(lal.String), lal.StringIgnoreCase) {
						ok = true
					}
				case len(lal.Chars) > 0:
					if k < L {
						for _, ch := range lal.Chars {
							if in[k] == ch {
								ok = true
							}
						}
					}
				default:
					if k < L && in[k] == lal.Char {
						ok = true
					}
				}
				if ok {
					break
				}
				if k == L || lal.LoopNode == nil || lal.LoopNode.Set == nil || !lal.LoopNode.Set.CharIn(in[k]) {
					break
				}
			}
			if !ok {
				return fmt.Sprintf("LiteralAfterLoop (%q/%q/%q) is not reachable through the loop set from match position %d", lal.String, lal.Char, string(lal.Chars), p)
			}
		}
		if ch := f.LandmarkChain; ch != nil && f.FindMode == syntax.RequiredLandmarkChain_LeftToRight {
			note("LandmarkChain")
			if msg := landmarkFact(ch, in, p); msg != "" {
				return msg
			}
		}
	}
	if fc := code.FcPrefix; fc != nil {
		note("FcPrefix")
		var ch rune
		have := false
		if !rtl && p < L {
			ch, have = in[p], true
		} else if rtl && p > 0 {
			ch, have = in[p-1], true
		}
		okc := have && (fc.PrefixSet.CharIn(ch) || (fc.CaseInsensitive && fc.PrefixSet.CharIn(unicode.ToLower(ch))))
		if !okc {
			return fmt.Sprintf("first-character set %s (ci=%v) does not contain the first rune at match position %d", fc.PrefixSet.String(), fc.CaseInsensitive, p)
		}
	}
	if bm := code.BmPrefix; bm != nil {
		note("BmPrefix")
		pat := []rune(bm.String())
		var okb bool
		if !rtl {
			okb = hasPrefixFold(in[p:], pat, true)
		} else {
			okb = p >= len(pat) && hasPrefixFold(in[p-len(pat):], pat, true)
		}
		if !okb || !bm.IsMatch(in, p, 0, L) {
			return fmt.Sprintf("Boyer-Moore prefix %q does not match at position %d", bm.String(), p)
		}
	}
	for _, a := range []struct {
		bit syntax.AnchorLoc
		t   syntax.NodeType
		n   string
	}{{syntax.AnchorBeginning, syntax.NtBeginning, "Beginning"}, {syntax.AnchorBol, syntax.NtBol, "Bol"}, {syntax.AnchorStart, syntax.NtStart, "Start"}, {syntax.AnchorEol, syntax.NtEol, "Eol"},
		{syntax.AnchorEndZ, syntax.NtEndZ, "EndZ"}, {syntax.AnchorEnd, syntax.NtEnd, "End"}, {syntax.AnchorBoundary, syntax.NtBoundary, "Boundary"}, {syntax.AnchorECMABoundary, syntax.NtECMABoundary, "ECMABoundary"}} {
		if code.Anchors&a.bit != 0 {
			note("Anchors." + a.n)
			if ok, _ := anchorHolds(a.t, in, p, origin, false); !ok {
				return fmt.Sprintf("anchor bit %s does not hold at match position %d", a.n, p)
			}
		}
	}
	return ""
}

// landmarkFact: the chain is a necessary condition: from p, every landmark must be findable in
// order (each at or after the earliest end of the previous one), and everything between p and the
// first landmark occurrence must belong to the leading loop set.
func landmarkFact(ch *syntax.RequiredLandmarkChain, in []rune, p int) string {
	L := len(in)
	altAt := func(alt syntax.RequiredLandmarkAlternative, q int) (start, minEnd int, ok bool) {
		if alt.RequireWhitespaceBefore && (q == 0 || alt.LeadingWhitespaceSet == nil || !alt.LeadingWhitespaceSet.CharIn(in[q-1])) {
			return 0, 0, false
		}
		var widths []int
		if len(alt.Literal) > 0 {
			if !hasPrefixFold(in[q:], alt.Literal, false) {
				return 0, 0, false
			}
			widths = []int{len(alt.Literal)}
		} else if alt.Set != nil && alt.MinRepeat > 0 {
			max := alt.MaxRepeat
			if max <= 0 {
				max = alt.MinRepeat
			}
			n := 0
			for q+n < L && n < max && alt.Set.CharIn(in[q+n]) {
				n++
			}
			for w := alt.MinRepeat; w <= n; w++ {
				widths = append(widths, w)
			}
		}
		for _, w := range widths {
			if alt.RequireWhitespaceAfter && (q+w >= L || alt.TrailingWhitespaceSet == nil || !alt.TrailingWhitespaceSet.CharIn(in[q+w])) {
				continue
			}
			st := q
			for st > 0 && alt.LeadingWhitespaceSet != nil && alt.LeadingWhitespaceSet.CharIn(in[st-1]) {
				st--
			}
			return st, q + w, true
		}
		return 0, 0, false
	}
	// Necessary condition only (never stronger than what a match implies): for the first landmark SOME occurrence
	// of SOME alternative must begin (leading whitespace included) after nothing but leading-loop characters; the
	// next landmark is then looked for from the smallest end any qualifying occurrence allows. Taking "the first
	// alternative that matches at the first position" instead is order-dependent: `(?:-\\s+|\\s+-)` at the same
	// core position has one alternative that starts at the core and one that starts at the whitespace before it.
	pos := p
	for li, lm := range ch.Landmarks {
		best := -1
		blocked := ""
		for q := pos; q < L && (best < 0 || q < best); q++ {
			for _, alt := range lm.Alternatives {
				st, me, ok := altAt(alt, q)
				if !ok {
					continue
				}
				if li == 0 {
					clean := true
					for k := p; k < st; k++ {
						if ch.LeadingLoopSet == nil || !ch.LeadingLoopSet.CharIn(in[k]) {
							clean = false
							if blocked == "" {
								blocked = fmt.Sprintf("landmark chain: rune %q between match position %d and the first landmark at %d is not in the leading loop set (and no other occurrence of the landmark qualifies)", in[k], p, st)
							}
							break
						}
					}
					if !clean {
						continue
					}
				}
				if best < 0 || me < best {
					best = me
				}
			}
		}
		if best < 0 {
			if blocked != "" {
				return blocked
			}
			return fmt.Sprintf("landmark chain: landmark %d cannot be found at or after %d (match position %d)", li, pos, p)
		}
		pos = best
	}
	return ""
}

func c04Each(c *Ctx) func(jc *jobCase) (int64, int64, *Violation) {
	return func(jc *jobCase) (n, nt int64, bad *Violation) {
		re, err := regexp2.Compile(jc.src, jc.j.opts.compileOptions()...)
		if err != nil {
			if jc.p.AST == nil {
				return 0, 0, nil
			}
			return 0, 0, &Violation{Leg: "compile", Detail: "enumerated pattern does not compile: " + err.Error()}
		}
		rtl := re.RightToLeft()
		c.Outcome("findmode:"+re.VerifCode().FindOptimizations.FindMode.String(), 1)
		for _, in := range jc.inputs {
			origin := 0
			if rtl {
				origin = len(in)
			}
			for p := 0; p <= len(in); p++ {
				n++
				m, err := re.VerifAttemptAt(in, origin, p)
				if err != nil {
					return n, nt, vio("attempt", in, p, "error %v", err)
				}
				if m == nil {
					continue
				}
				nt++
				if msg := c04Facts(re, in, origin, p, m.RuneIndex, m.RuneIndex+m.RuneLength, c); msg != "" {
					return n, nt, vio("fact", in, p, "%s; match=(%d,+%d); findmode=%s", msg, m.RuneIndex, m.RuneLength, re.VerifCode().FindOptimizations.FindMode)
				}
			}
		}
		return
	}
}

func runC04(c *Ctx) {
	c.Level = "exploration"
	thorough := c.Tier == "thorough"
	if thorough {
		c.SetBudget(35 * time.Minute)
	} else {
		c.SetBudget(4 * time.Minute)
	}
	c.Rule = "same families as C03 (chosen so every find mode is reached; code-gen analysis on/off; both directions) x every input up to the bound x every attempt position p: whenever the single anchored attempt (verif hook) succeeds at p, every published fact must hold there: remaining input >= MinRequiredLength, length <= MaxPossibleLength, leading/trailing anchors, LeadingPrefix / one of LeadingPrefixes is a prefix (ordinal-ignore-case where the mode says so), fixed-distance literal and sets (and their Chars/Range/Negated summaries equal the set on ASCII and probe runes), literal-after-loop reachable through the loop set, landmark chain satisfiable, first-character set contains the first rune, Boyer-Moore prefix matches, anchor bits. Non-trivial = attempt positions at which the program matches."
	c.Assume("hook VerifAttemptAt runs the compiled program once at a fixed position; facts derived from a leading lookahead are position facts and are checked as such")
	jobs := accelFamilies(thorough)
	if !thorough {
		// C04 evaluates every attempt position rather than every start offset; keep the same families
		var keep []job
		for _, j := range jobs {
			if j.fam == "LOOP" || (j.fam == "SEQ k<=3" && j.opts != "") {
				continue
			}
			keep = append(keep, j)
		}
		jobs = keep
		jobs = append(jobs, job{fam: "LOOP", pats: loopFamily(true), opts: "", prof: profP0, maxL: 3})
	}
	c.runJobs(jobs, c04Each(c))
	var modes []string
	c.mu.Lock()
	for k := range c.outcomes {
		if strings.HasPrefix(k, "fact-checked:") {
			modes = append(modes, strings.TrimPrefix(k, "fact-checked:"))
		}
	}
	c.mu.Unlock()
	c.extra["facts_exercised"] = modes
}

func replayC04(v Violation) (bool, string) {
	re, err := regexp2.Compile(v.Pattern, optSet(v.Options).compileOptions()...)
	if err != nil {
		return false, "compile error: " + err.Error()
	}
	in, p := replayInput(v)
	origin := 0
	if re.RightToLeft() {
		origin = len(in)
	}
	m, err := re.VerifAttemptAt(in, origin, p)
	if err != nil || m == nil {
		return false, fmt.Sprintf("no match at %d any more (err=%v)", p, err)
	}
	c := newCtx("C04", "quick")
	msg := c04Facts(re, in, origin, p, m.RuneIndex, m.RuneIndex+m.RuneLength, c)
	return msg != "", msg
}
