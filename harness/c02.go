package main

// C02: every public entry point reports the same matches.
// C08: returned matches are well-formed and index conversion is exact.

import (
	"bytes"
	"encoding/base64"
	"fmt"
	"reflect"
	"strings"
	"time"
	"unicode/utf8"

	regexp2 "github.com/dlclark/regexp2/v2"
	"github.com/dlclark/regexp2/v2/compat"
)

func init() {
	register("C02", runC02)
	register("C08", runC08)
	replayers["C02"] = func(v Violation) (bool, string) { return replayEntry(v, c02Check) }
	replayers["C08"] = func(v Violation) (bool, string) { return replayEntry(v, c08Check) }
}

// independentOffsets: byte offset of every rune index of s, by a plain DecodeRuneInString walk
// (an invalid byte is one rune of width 1).
func independentOffsets(s string) []int {
	var off []int
	for i := 0; i < len(s); {
		off = append(off, i)
		_, w := utf8.DecodeRuneInString(s[i:])
		i += w
	}
	return append(off, len(s))
}

type entryCheck func(re *regexp2.Regexp, cre *compat.Regexp, s string) *Violation

func viob(leg string, s string, format string, a ...any) *Violation {
	return &Violation{Leg: leg, Input: q(s), Detail: fmt.Sprintf(format, a...), Extra: map[string]any{"input_bytes": []byte(s)}}
}

func safely(leg, s string, f func() *Violation) (v *Violation) {
	defer func() {
		if r := recover(); r != nil {
			v = viob(leg, s, "%s", panicText(r))
		}
	}()
	return f()
}

func c02Check(re *regexp2.Regexp, cre *compat.Regexp, s string) *Violation {
	R := []rune(s)
	off := independentOffsets(s)
	rtl := re.RightToLeft()
	first, err := re.FindRunesMatch(R)
	ch := walkChain(re, first, err, len(R))
	if ch.err != "" || ch.nterm {
		return viob("chain", s, "rune chain error=%q nonterminating=%v", ch.err, ch.nterm)
	}
	S := ch.ms
	any := len(S) > 0
	// 1. boolean calls
	mr, e1 := re.MatchRunes(R)
	ms, e2 := re.MatchString(s)
	if e1 != nil || e2 != nil || mr != any || ms != any {
		return viob("bool", s, "MatchRunes=%v(%v) MatchString=%v(%v) but FindRunesMatch found=%v", mr, e1, ms, e2, any)
	}
	// 2. string chain
	fs, err := re.FindStringMatch(s)
	sch := walkChain(re, fs, err, len(R))
	if sch.err != "" || sch.nterm || len(sch.ms) != len(S) {
		return viob("string-chain", s, "string chain %s (err=%q) vs rune chain %s", chainString(sch.ms), sch.err, chainString(S))
	}
	for i := range S {
		if !S[i].equal(sch.ms[i]) {
			return viob("string-chain", s, "element %d: FindStringMatch chain %s vs FindRunesMatch chain %s", i, sch.ms[i], S[i])
		}
	}
	// 3. StartingAt variants at every rune offset, and the documented error for non-boundaries
	for k := 0; k <= len(R); k++ {
		a := fromMatch(re.FindRunesMatchStartingAt(R, k))
		b := fromMatch(re.FindStringMatchStartingAt(s, off[k]))
		if !a.equal(b) {
			return viob("startingat", s, "rune offset %d (byte %d): FindRunesMatchStartingAt=%s FindStringMatchStartingAt=%s", k, off[k], a, b)
		}
	}
	for b := 0; b <= len(s); b++ {
		boundary := false
		for _, o := range off {
			if o == b {
				boundary = true
			}
		}
		if !boundary {
			if _, err := re.FindStringMatchStartingAt(s, b); err == nil {
				return viob("startingat", s, "byte offset %d is inside a rune but FindStringMatchStartingAt returned no error", b)
			}
		}
	}
	if a, b := fromMatch(re.FindRunesMatchStartingAt(R, -1)), fromMatch(re.FindStringMatchStartingAt(s, -1)); !a.equal(b) || (any && !a.equal(S[0])) || (!any && a.ok) {
		return viob("startingat", s, "startAt=-1: runes=%s string=%s first of chain=%v", a, b, S)
	}
	// 4. find-all index calls
	for _, n := range []int{-1, 0, 1, 2, 3} {
		want := findAllExpected(S, n, rtl)
		gr, e1 := re.FindAllRunesIndex(R, n)
		if e1 != nil || !samePairs(want, pairsOf(gr)) {
			return viob("findall", s, "FindAllRunesIndex(n=%d)=%v err=%v want %v chain=%s", n, gr, e1, want, chainString(S))
		}
		wb := toBytePairs(want, off)
		gs, e2 := re.FindAllStringIndex(s, n)
		if e2 != nil || !samePairs(wb, pairsOf(gs)) {
			return viob("findall", s, "FindAllStringIndex(n=%d)=%v err=%v want %v chain=%s", n, gs, e2, wb, chainString(S))
		}
	}
	// 5. the regexp-style adapter (left-to-right patterns: its iteration rules are regexp's)
	if !rtl {
		if v := safely("compat", s, func() *Violation { return c02Compat(cre, s, R, off, S) }); v != nil {
			return v
		}
	} else {
		// right-to-left is not regexp syntax, so there is no external reference; but the adapter's find-all
		// methods must at least list the same matches as each other (two of them delegate to the core's
		// find-all, five iterate themselves)
		if v := safely("compat", s, func() *Violation {
			for _, n := range []int{-1, 2} {
				a := cre.FindAllStringIndex(s, n)
				bsub := cre.FindAllStringSubmatchIndex(s, n)
				c := cre.FindAllSubmatchIndex([]byte(s), n)
				if len(a) != len(bsub) || len(a) != len(c) {
					return viob("compat", s, "right-to-left: FindAllStringIndex(n=%d)=%v but FindAllStringSubmatchIndex=%v FindAllSubmatchIndex=%v", n, a, bsub, c)
				}
				for i := range a {
					if a[i][0] != bsub[i][0] || a[i][1] != bsub[i][1] || a[i][0] != c[i][0] || a[i][1] != c[i][1] {
						return viob("compat", s, "right-to-left: FindAllStringIndex(n=%d)=%v but FindAllStringSubmatchIndex=%v FindAllSubmatchIndex=%v", n, a, bsub, c)
					}
				}
			}
			return nil
		}); v != nil {
			return v
		}
	}
	// 6. Replace / ReplaceFunc / Split visit exactly the chain
	if v := safely("replace", s, func() *Violation { return c02Replace(re, s, R, off, S, rtl) }); v != nil {
		return v
	}
	return nil
}

func toBytePairs(p [][2]int, off []int) [][2]int {
	if len(p) == 0 {
		return nil
	}
	out := make([][2]int, len(p))
	for i, x := range p {
		out[i] = [2]int{off[x[0]], off[x[1]]}
	}
	return out
}

// submatchIndexes: Go-style flat index list for one match (byte offsets; -1 for unset groups).
func submatchIndexes(m mres, off []int) []int {
	out := make([]int, 2*len(m.caps))
	for i, cs := range m.caps {
		if len(cs) == 0 {
			out[2*i], out[2*i+1] = -1, -1
			continue
		}
		last := cs[len(cs)-1]
		out[2*i], out[2*i+1] = off[last[0]], off[last[0]+last[1]]
	}
	return out
}

func c02Compat(cre *compat.Regexp, s string, R []rune, off []int, S []mres) *Violation {
	b := []byte(s)
	any := len(S) > 0
	if x, y, z := cre.Match(b), cre.MatchString(s), cre.MatchReader(strings.NewReader(s)); x != any || y != any || z != any {
		return viob("compat", s, "Match=%v MatchString=%v MatchReader=%v, chain non-empty=%v", x, y, z, any)
	}
	var wantIdx, wantSub []int
	if any {
		wantIdx = []int{off[S[0].idx], off[S[0].idx+S[0].ln]}
		wantSub = submatchIndexes(S[0], off)
	}
	for name, got := range map[string][]int{"FindIndex": cre.FindIndex(b), "FindStringIndex": cre.FindStringIndex(s), "FindReaderIndex": cre.FindReaderIndex(strings.NewReader(s))} {
		if !reflect.DeepEqual(got, wantIdx) {
			return viob("compat", s, "%s=%v want %v", name, got, wantIdx)
		}
	}
	for name, got := range map[string][]int{"FindSubmatchIndex": cre.FindSubmatchIndex(b), "FindStringSubmatchIndex": cre.FindStringSubmatchIndex(s), "FindReaderSubmatchIndex": cre.FindReaderSubmatchIndex(strings.NewReader(s))} {
		if !reflect.DeepEqual(got, wantSub) {
			return viob("compat", s, "%s=%v want %v", name, got, wantSub)
		}
	}
	for _, n := range []int{-1, 0, 1, 2, 3} {
		want := toBytePairs(findAllExpected(S, n, false), off)
		for name, got := range map[string][][]int{"FindAllIndex": cre.FindAllIndex(b, n), "FindAllStringIndex": cre.FindAllStringIndex(s, n)} {
			if !samePairs(want, pairsOf(got)) {
				return viob("compat", s, "%s(n=%d)=%v want %v", name, n, got, want)
			}
		}
		// submatch variants: same matches, full index lists
		var wantAll [][]int
		cnt := 0
		prev := -1
		for _, m := range S {
			if n == 0 || (n > 0 && cnt == n) {
				break
			}
			if m.ln != 0 || m.idx != prev {
				wantAll = append(wantAll, submatchIndexes(m, off))
				cnt++
			}
			prev = m.idx + m.ln
		}
		for name, got := range map[string][][]int{"FindAllSubmatchIndex": cre.FindAllSubmatchIndex(b, n), "FindAllStringSubmatchIndex": cre.FindAllStringSubmatchIndex(s, n)} {
			if len(got) != len(wantAll) {
				return viob("compat", s, "%s(n=%d)=%v want %v", name, n, got, wantAll)
			}
			for i := range got {
				if !reflect.DeepEqual(got[i], wantAll[i]) {
					return viob("compat", s, "%s(n=%d)=%v want %v", name, n, got, wantAll)
				}
			}
		}
		// the text-valued variants must at least report the same number of matches
		if x, y := len(cre.FindAll(b, n)), len(cre.FindAllString(s, n)); x != len(wantAll) || y != len(wantAll) {
			return viob("compat", s, "FindAll(n=%d) returns %d and FindAllString %d matches, want %d", n, x, y, len(wantAll))
		}
		if x, y := len(cre.FindAllSubmatch(b, n)), len(cre.FindAllStringSubmatch(s, n)); x != len(wantAll) || y != len(wantAll) {
			return viob("compat", s, "FindAllSubmatch(n=%d) returns %d and FindAllStringSubmatch %d matches, want %d", n, x, y, len(wantAll))
		}
	}
	return nil
}

func c02Replace(re *regexp2.Regexp, s string, R []rune, off []int, S []mres, rtl bool) *Violation {
	// Replace with a marker that exposes where each match was found.
	got, err := re.Replace(s, "<$&>", -1, -1)
	if err != nil {
		return viob("replace", s, "Replace error %v", err)
	}
	asc := append([]mres{}, S...)
	if rtl {
		for i, j := 0, len(asc)-1; i < j; i, j = i+1, j-1 {
			asc[i], asc[j] = asc[j], asc[i]
		}
	}
	var want bytes.Buffer
	pos := 0
	for _, m := range asc {
		want.WriteString(string(R[pos:m.idx]))
		want.WriteString("<" + string(R[m.idx:m.idx+m.ln]) + ">")
		pos = m.idx + m.ln
	}
	want.WriteString(string(R[pos:]))
	// unmatched invalid bytes may be passed through raw or as U+FFFD: compare decoded text
	if string([]rune(got)) != want.String() {
		return viob("replace", s, "Replace(\"<$&>\")=%q want %q (chain %s)", got, want.String(), chainString(S))
	}
	// ReplaceFunc: the evaluator must be handed exactly the chain, in scan order.
	var seen []mres
	_, err = re.ReplaceFunc(s, func(m regexp2.Match) string {
		seen = append(seen, fromMatch(&m, nil))
		return ""
	}, -1, -1)
	if err != nil {
		return viob("replacefunc", s, "ReplaceFunc error %v", err)
	}
	if len(seen) != len(S) {
		return viob("replacefunc", s, "ReplaceFunc visited %s, chain is %s", chainString(seen), chainString(S))
	}
	for i := range S {
		if !S[i].equal(seen[i]) {
			return viob("replacefunc", s, "ReplaceFunc match %d is %s, chain has %s", i, seen[i], S[i])
		}
	}
	// Split: text between successive matches interleaved with the captured groups (ascending text order).
	pieces, err := re.Split(s, -1)
	if err != nil {
		return viob("split", s, "Split error %v", err)
	}
	var wantPieces []string
	pos = 0
	for _, m := range asc {
		wantPieces = append(wantPieces, string(R[pos:m.idx]))
		for g := 1; g < len(m.caps); g++ {
			// this library lists every group; a group that did not participate contributes ""
			piece := ""
			if len(m.caps[g]) > 0 {
				last := m.caps[g][len(m.caps[g])-1]
				piece = string(R[last[0] : last[0]+last[1]])
			}
			wantPieces = append(wantPieces, piece)
		}
		pos = m.idx + m.ln
	}
	wantPieces = append(wantPieces, string(R[pos:]))
	for i := range pieces {
		pieces[i] = string([]rune(pieces[i]))
	}
	if !reflect.DeepEqual(pieces, wantPieces) {
		return viob("split", s, "Split=%q want %q (chain %s)", pieces, wantPieces, chainString(S))
	}
	return nil
}

// ---- C08 ----

func c08Check(re *regexp2.Regexp, cre *compat.Regexp, s string) *Violation {
	R := []rune(s)
	off := independentOffsets(s)
	nums := re.GetGroupNumbers()
	check := func(leg string, first *regexp2.Match, err error, fromString bool) *Violation {
		if err != nil {
			return viob(leg, s, "error %v", err)
		}
		n := 0
		for m := first; m != nil; {
			if v := c08MatchNums(leg, s, R, off, m, fromString, nums); v != nil {
				return v
			}
			n++
			if n > len(R)+2 {
				return viob(leg, s, "chain does not terminate")
			}
			m, err = re.FindNextMatch(m)
			if err != nil {
				return viob(leg, s, "error %v", err)
			}
		}
		return nil
	}
	m1, e1 := re.FindStringMatch(s)
	if v := check("string", m1, e1, true); v != nil {
		return v
	}
	m2, e2 := re.FindRunesMatch(R)
	if v := check("runes", m2, e2, false); v != nil {
		return v
	}
	for k := 0; k <= len(R); k++ {
		m, err := re.FindStringMatchStartingAt(s, off[k])
		if err != nil {
			return viob("string-at", s, "offset %d error %v", off[k], err)
		}
		if m != nil {
			if v := c08MatchNums("string-at", s, R, off, m, true, nums); v != nil {
				return v
			}
		}
	}
	// the whole find-all list (both directions) equals the byte spans of the chain's elements, taken from off[]
	if m2 != nil {
		ch := walkChain(re, m2, nil, len(R))
		if ch.err == "" && !ch.nterm {
			want := findAllExpected(ch.ms, -1, re.RightToLeft())
			all, err := re.FindAllStringIndex(s, -1)
			bad := err != nil || len(all) != len(want)
			for i := 0; !bad && i < len(want); i++ {
				if len(all[i]) != 2 || all[i][0] != off[want[i][0]] || all[i][1] != off[want[i][1]] {
					bad = true
				}
			}
			if bad {
				return viob("byte-consistency", s, "FindAllStringIndex(-1)=%v err=%v; the chain's elements (runes) %v have the byte offsets %v", all, err, want, off)
			}
		}
	}
	// consistency with the byte indexes of the find-all and adapter calls
	if !re.RightToLeft() && m1 != nil {
		bi, bl := m1.ByteRange()
		all, err := re.FindAllStringIndex(s, 1)
		if err != nil || len(all) != 1 || all[0][0] != bi || all[0][1] != bi+bl {
			return viob("byte-consistency", s, "first match ByteRange=(%d,+%d) but FindAllStringIndex(1)=%v err=%v", bi, bl, all, err)
		}
		if v := safely("byte-consistency", s, func() *Violation {
			if ci := cre.FindStringIndex(s); len(ci) != 2 || ci[0] != bi || ci[1] != bi+bl {
				return viob("byte-consistency", s, "first match ByteRange=(%d,+%d) but compat FindStringIndex=%v", bi, bl, ci)
			}
			if ci := cre.FindIndex([]byte(s)); len(ci) != 2 || ci[0] != bi || ci[1] != bi+bl {
				return viob("byte-consistency", s, "first match ByteRange=(%d,+%d) but compat FindIndex=%v", bi, bl, ci)
			}
			return nil
		}); v != nil {
			return v
		}
	}
	return nil
}

func c08MatchNums(leg string, s string, R []rune, off []int, m *regexp2.Match, fromString bool, nums []int) *Violation {
	if v := c08MatchBody(leg, s, R, off, m, fromString); v != nil {
		return v
	}
	gs := m.Groups()
	if len(nums) != len(gs) {
		return viob(leg, s, "GetGroupNumbers has %d entries, Groups() %d", len(nums), len(gs))
	}
	for i, num := range nums {
		g := m.GroupByNumber(num)
		if g == nil || g.RuneIndex != gs[i].RuneIndex || g.RuneLength != gs[i].RuneLength || len(g.Captures) != len(gs[i].Captures) {
			return viob(leg, s, "GroupByNumber(%d) is not Groups()[%d]", num, i)
		}
	}
	return nil
}

// c08MatchBody is c08Match without the by-number lookup (done with the Regexp's own numbers).
func c08MatchBody(leg string, s string, R []rune, off []int, m *regexp2.Match, fromString bool) *Violation {
	gs := m.Groups()
	if len(gs) == 0 {
		return viob(leg, s, "match without group 0")
	}
	if len(gs[0].Captures) != 1 || gs[0].Captures[0].RuneIndex != m.RuneIndex || gs[0].Captures[0].RuneLength != m.RuneLength {
		return viob(leg, s, "group 0 captures=%d, does not equal the match (%d,+%d)", len(gs[0].Captures), m.RuneIndex, m.RuneLength)
	}
	if m.GroupCount() != len(gs) {
		return viob(leg, s, "GroupCount=%d but Groups() has %d", m.GroupCount(), len(gs))
	}
	for gi := range gs {
		g := &gs[gi]
		if n := len(g.Captures); n > 0 {
			last := g.Captures[n-1]
			if g.RuneIndex != last.RuneIndex || g.RuneLength != last.RuneLength {
				return viob(leg, s, "group %d embedded capture (%d,+%d) is not its last capture (%d,+%d)", gi, g.RuneIndex, g.RuneLength, last.RuneIndex, last.RuneLength)
			}
		} else if g.RuneLength != 0 {
			return viob(leg, s, "group %d has no captures but embedded length %d", gi, g.RuneLength)
		}
		for ci := -1; ci < len(g.Captures); ci++ {
			var cp *regexp2.Capture
			if ci < 0 {
				if len(g.Captures) == 0 {
					continue
				}
				cp = &g.Capture
			} else {
				cp = &g.Captures[ci]
			}
			i, l := cp.RuneIndex, cp.RuneLength
			if i < 0 || l < 0 || i+l > len(R) {
				return viob(leg, s, "group %d capture %d (%d,+%d) lies outside the input of %d runes", gi, ci, i, l, len(R))
			}
			if got, want := cp.String(), string(R[i:i+l]); got != want {
				return viob(leg, s, "group %d capture String()=%q want %q", gi, got, want)
			}
			if got := cp.Runes(); string(got) != string(R[i:i+l]) || len(got) != l {
				return viob(leg, s, "group %d capture Runes()=%q want %q", gi, string(got), string(R[i:i+l]))
			}
			bi, bl := cp.ByteRange()
			var wi, wl int
			if fromString {
				wi, wl = off[i], off[i+l]-off[i]
			} else {
				wi, wl = len(string(R[:i])), len(string(R[i:i+l]))
			}
			if bi != wi || bl != wl {
				return viob(leg, s, "group %d capture (%d,+%d) ByteRange()=(%d,+%d) want (%d,+%d)", gi, i, l, bi, bl, wi, wl)
			}
		}
	}
	return nil
}

// ---- shared driver ----

func entryJobs(thorough, lite bool) []job {
	var jobs []job
	add := func(fam string, pats []Pat, o optSet, pr profile, L int) {
		jobs = append(jobs, job{fam: fam, pats: pats, opts: o, prof: pr, maxL: L})
	}
	core3 := coreFamily("CORE", grammarCore(), 3)
	core4 := coreFamily("CORE", grammarCore(), 4)
	loopF := loopFamily(true)
	lookF := lookFamily(false)
	anch := anchFamily(4, false)
	anchProf := profile{name: "ANCH {a,\\n,c}", m: map[rune]rune{'b': '\n'}, input: []rune{'a', 'b', 'c'}}
	corpus := corpusPatterns()
	bal := balFamily()
	// narrow, shortcut-directed families first (an internal deadline then only ever cuts breadth)
	lim := limFamily()
	add("LIM", lim, "", profCorpus, 2)
	add("LIM", lim, "R", profCorpus, 2)
	add("ALTB", altBranchFamily(false), "", profP0, 3)
	// case-insensitive patterns on inputs that hold BOTH cases of the same letters (the fixed profiles give every
	// letter one case): the string entry points go through byte-level case-insensitive pre-filters of their own
	profCase := profile{name: "P0-case-pairs {a,A,b,B}", m: map[rune]rune{}, input: []rune{'a', 'A', 'b', 'B'}}
	add("LITAB", litABFamily(false), "i", profCase, 5)
	add("ALTB", altBranchFamily(false), "i", profCase, 4)
	for _, pr := range []profile{profP0, profP2, profP4} {
		add("BAL", bal, "", pr, 5)
		add("BAL", bal, "R", pr, 5)
	}
	add("CORPUS", corpus, "", profCorpus, 3)
	add("CORPUS", corpus, "R", profCorpus, 3)
	add("CORPUS", corpus, "G", profCorpus, 3)
	add("ANCH<=4", anch, "", anchProf, 4)
	add("ANCH<=4", anch, "m", anchProf, 3)
	add("ANCH<=4", anch, "R", anchProf, 3)
	add("LOOP", loopF, "", profP0, 2)
	if lite {
		add("LOOK", lookF, "", profP0, 2)
	} else {
		add("LOOK", lookF, "", profP0, 3)
	}
	if lite {
		// C02 makes ~45 API calls per input; its quick tier uses the smaller bounds
		add("CORE<=4", core4, "", profP0, 2)
		add("CORE<=4", core4, "", profP45, 2)
		add("CORE<=3", core3, "", profP0, 4)
		add("CORE<=3", core3, "R", profP0, 4)
		add("CORE<=3", core3, "", profP2, 4)
		add("CORE<=3", core3, "", profP5, 4)
	} else {
		add("CORE<=4", core4, "", profP0, 4)
		add("CORE<=4", core4, "R", profP0, 3)
		for _, pr := range []profile{profP2, profP5, profP45} {
			add("CORE<=4", core4, "", pr, 3)
		}
	}
	for _, pr := range []profile{profP34, profP1, profP3, profP4} {
		add("CORE<=3", core3, "", pr, 4)
	}
	for _, o := range []optSet{"E", "2", "G", "B", "i", "n", "m", "s", "R2", "RE"} {
		pr := profP0
		if o.has('i') {
			pr = profP0i
		}
		if lite {
			add("CORE<=3", core3, o, pr, 3)
		} else {
			add("CORE<=3", core3, o, pr, 4)
		}
		add("CORE<=3", core3, o, profP45, 3)
	}
	if thorough {
		core5 := coreFamily("CORE", grammarCore(), 5)
		add("CORE<=5", core5, "", profP0, 3)
		add("CORE<=5", core5, "", profP45, 3)
		for _, o := range []optSet{"R", "E", "2", "G", "B", "i", "m"} {
			pr := profP0
			if o.has('i') {
				pr = profP0i
			}
			add("CORE<=4", core4, o, pr, 4)
		}
		for _, pr := range []profile{profP1, profP2, profP3, profP4, profP5, profP45} {
			add("CORE<=4", core4, "", pr, 4)
			add("LOOP", loopF, "", pr, 3)
		}
		add("LOOP", loopF, "", profP0, 4)
		add("LOOP", loopF, "R", profP0, 3)
		add("LOOK", lookF, "", profP0, 4)
		add("LOOK", lookF, "R", profP0, 3)
		add("LOOK", lookF, "", profP45, 3)
		add("CORPUS", corpus, "i", profCorpus, 3)
		add("CORPUS", corpus, "E", profCorpus, 3)
	}
	return jobs
}

func runEntry(c *Ctx, chk entryCheck, lite bool) {
	thorough := c.Tier == "thorough"
	if thorough {
		c.SetBudget(35 * time.Minute)
	} else {
		c.SetBudget(5 * time.Minute)
	}
	c.runJobs(entryJobs(thorough, lite && !thorough), func(jc *jobCase) (n, nt int64, bad *Violation) {
		copts := jc.j.opts.compileOptions()
		re, err := regexp2.Compile(jc.src, copts...)
		if err != nil {
			if jc.p.AST == nil || jc.j.opts.has('E') || jc.j.opts.has('2') || jc.j.opts.has('n') {
				return 0, 0, nil // not valid under these options
			}
			return 0, 0, &Violation{Leg: "compile", Detail: "enumerated pattern does not compile: " + err.Error()}
		}
		cre := compat.Wrap(re)
		for _, in := range jc.inputs {
			s := jc.j.prof.encode(in)
			n++
			if len(s) != len(in) {
				nt++ // byte and rune indexes differ
			}
			if v := safely("panic", s, func() *Violation { return chk(re, cre, s) }); v != nil {
				return n, nt, v
			}
		}
		return
	})
}

func runC02(c *Ctx) {
	c.Level = "exploration"
	c.Rule = "every pattern of the listed families (incl. nullable loops, \\G, balancing groups, corpus patterns) x option sets (R RightToLeft, E ECMAScript, 2 RE2, G code-gen analysis, B no ASCII bitmap, i, n, m, s) x every input up to the bound over the profile alphabet encoded as a byte string (profiles with multi-byte runes, a literal U+FFFD, the invalid byte 0xFF and the truncated sequence E2 82): the FindRunesMatch/FindNextMatch chain is the reference; MatchRunes, MatchString, the FindStringMatch chain, both StartingAt variants at every rune offset (and the documented error at non-boundary byte offsets), FindAllRunesIndex/FindAllStringIndex for n in {-1,0,1,2,3}, 19 adapter methods, and the matches visited by Replace, ReplaceFunc and Split must agree with it up to the byte/rune index map computed by an independent utf8 walk. Non-trivial = inputs whose byte and rune indexes differ."
	c.Assume("the reference chain itself is checked against the model by C01 and against the naive scan by C03/C07")
	runEntry(c, c02Check, true)
}

func runC08(c *Ctx) {
	c.Level = "exploration"
	c.Rule = "same enumeration as C02; for every match of the string chain, the rune chain and every FindStringMatchStartingAt offset: every capture of every group lies inside the input, group 0 has exactly one capture equal to the match, each group's embedded capture is its last capture, String()/Runes() equal the addressed slice, ByteRange() equals the byte span computed by an independent utf8.DecodeRuneInString walk of the original string (rune input: length of the UTF-8 encoding), GroupByNumber addresses Groups() in order, and the first match's ByteRange equals FindAllStringIndex / adapter indexes. Non-trivial = inputs whose byte and rune indexes differ."
	runEntry(c, c08Check, false)
}

func replayEntry(v Violation, chk entryCheck) (bool, string) {
	re, err := regexp2.Compile(v.Pattern, optSet(v.Options).compileOptions()...)
	if err != nil {
		return false, "compile error: " + err.Error()
	}
	var b []byte
	if xs, ok := v.Extra["input_bytes"].(string); ok {
		// encoding/json writes []byte as base64
		b = decodeB64(xs)
	}
	s := string(b)
	r := safely("panic", s, func() *Violation { return chk(re, compat.Wrap(re), s) })
	if r != nil {
		return true, r.Leg + ": " + r.Detail
	}
	return false, "all entry points agree"
}

func decodeB64(x string) []byte {
	b, err := base64.StdEncoding.DecodeString(x)
	if err != nil {
		return nil
	}
	return b
}
