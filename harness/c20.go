package main

// C20: under IgnoreCase the outcome of a match does not depend on the case of the cased letters
// of the input nor on the case of the literal letters, class members and ranges of the pattern.
//
// The CASE family is printed from its own small AST (leading literal runs, classes with ranges,
// negation and subtraction, backreferences) whose printer takes a case mask: every letter
// occurrence of the pattern (a range counts as one unit: both end points change together) is one
// bit. All 2^k masks of a pattern and all 2^len masks of an input are enumerated; the oracle is
// "every member of the orbit behaves like the orbit's first (all lower-case) member".

import (
	"encoding/json"
	"fmt"
	"os"
	"regexp"
	"runtime/debug"
	"sort"
	"strings"
	"sync"
	"sync/atomic"
	"time"
	"unicode"

	regexp2 "github.com/dlclark/regexp2/v2"
)

func init() {
	register("C20", runC20)
	replayers["C20"] = replayC20
}

// ---------------------------------------------------------------------------------------------
// letters

// c20Letters maps the three base letters a, b, c to a (lower, upper) pair.
type c20Letters struct {
	name string
	pair map[rune][2]rune
}

var (
	c20ASCII    = c20Letters{"ascii a/A b/B c/C", map[rune][2]rune{'a': {'a', 'A'}, 'b': {'b', 'B'}, 'c': {'c', 'C'}}}
	c20Latin1   = c20Letters{"latin1 é/É ñ/Ñ ü/Ü", map[rune][2]rune{'a': {'é', 'É'}, 'b': {'ñ', 'Ñ'}, 'c': {'ü', 'Ü'}}}
	c20Greek    = c20Letters{"greek δ/Δ λ/Λ ξ/Ξ", map[rune][2]rune{'a': {'δ', 'Δ'}, 'b': {'λ', 'Λ'}, 'c': {'ξ', 'Ξ'}}}
	c20Cyrillic = c20Letters{"cyrillic г/Г ж/Ж л/Л", map[rune][2]rune{'a': {'г', 'Г'}, 'b': {'ж', 'Ж'}, 'c': {'л', 'Л'}}}
	// the pair named in the design; its fold orbit also holds U+1C81 since Unicode 9, which never
	// occurs in the inputs. Run as an extra profile in thorough.
	c20CyrillicDe = c20Letters{"cyrillic д/Д ж/Ж и/И (д also folds to U+1C81, absent from inputs)", map[rune][2]rune{'a': {'д', 'Д'}, 'b': {'ж', 'Ж'}, 'c': {'и', 'И'}}}
)

// simplePair: the fold orbit of r is exactly {lower, upper} and ToLower/ToUpper agree with it.
func simplePair(lo, up rune) bool {
	return lo != up && unicode.SimpleFold(lo) == up && unicode.SimpleFold(up) == lo &&
		unicode.ToUpper(lo) == up && unicode.ToLower(up) == lo && unicode.ToLower(lo) == lo && unicode.ToUpper(up) == up
}

func simplePairLetter(r rune) (lo, up rune, ok bool) {
	if !unicode.IsLetter(r) {
		return
	}
	lo, up = unicode.ToLower(r), unicode.ToUpper(r)
	return lo, up, simplePair(lo, up)
}

// ---------------------------------------------------------------------------------------------
// CASE pattern trees

type ckind int

const (
	ckStr ckind = iota // run of literal letters (one flip unit per letter)
	ckDot
	ckClass
	ckRef // \1
	ckRep
	ckCap
	ckCat
	ckAlt
	ckWrap // (?<= ) (?= ) (?> ) : q holds the opening text
	ckEsc  // one literal letter written as a \uXXXX escape (one flip unit)
	ckRaw  // fixed text without flip units (category escapes; ASCII letters only)
)

type citem struct{ lo, hi rune } // hi == 0: single letter; otherwise the range lo-hi (one flip unit)

type cclass struct {
	neg   bool
	items []citem
	sub   *cclass
}

type cnode struct {
	k    ckind
	s    string
	cls  *cclass
	q    string // quantifier text (ckRep) / opening text (ckWrap)
	kids []*cnode
}

func (n *cnode) size() int {
	s := 1
	for _, k := range n.kids {
		s += k.size()
	}
	return s
}

func (c *cclass) units() int {
	n := len(c.items)
	if c.sub != nil {
		n += c.sub.units()
	}
	return n
}

func (n *cnode) units() int {
	u := 0
	switch n.k {
	case ckStr:
		u = len(n.s)
	case ckEsc:
		u = 1
	case ckClass:
		u = n.cls.units()
	}
	for _, k := range n.kids {
		u += k.units()
	}
	return u
}

func (n *cnode) caps() int {
	c := 0
	if n.k == ckCap {
		c = 1
	}
	for _, k := range n.kids {
		c += k.caps()
	}
	return c
}

func (n *cnode) hasRef() bool {
	if n.k == ckRef {
		return true
	}
	for _, k := range n.kids {
		if k.hasRef() {
			return true
		}
	}
	return false
}

type cprinter struct {
	sb   strings.Builder
	mask uint32
	bit  uint
	L    *c20Letters
}

func (p *cprinter) letter(base rune, upper bool) {
	pr := p.L.pair[base]
	if upper {
		p.sb.WriteRune(pr[1])
	} else {
		p.sb.WriteRune(pr[0])
	}
}

func (p *cprinter) next() bool {
	up := p.mask&(1<<p.bit) != 0
	p.bit++
	return up
}

func (p *cprinter) class(c *cclass) {
	p.sb.WriteByte('[')
	if c.neg {
		p.sb.WriteByte('^')
	}
	for _, it := range c.items {
		up := p.next()
		p.letter(it.lo, up)
		if it.hi != 0 {
			p.sb.WriteByte('-')
			p.letter(it.hi, up)
		}
	}
	if c.sub != nil {
		p.sb.WriteByte('-')
		p.class(c.sub)
	}
	p.sb.WriteByte(']')
}

// prec: 0 = top / alternation branch, 1 = concatenation member, 2 = quantifier operand
func (p *cprinter) node(n *cnode, prec int) {
	switch n.k {
	case ckStr:
		wrap := prec >= 2 && len(n.s) > 1
		if wrap {
			p.sb.WriteString("(?:")
		}
		for _, r := range n.s {
			p.letter(r, p.next())
		}
		if wrap {
			p.sb.WriteByte(')')
		}
	case ckDot:
		p.sb.WriteByte('.')
	case ckEsc:
		pr := p.L.pair[[]rune(n.s)[0]]
		r := pr[0]
		if p.next() {
			r = pr[1]
		}
		fmt.Fprintf(&p.sb, "\\u%04x", r)
	case ckRaw:
		p.sb.WriteString(n.s)
	case ckClass:
		p.class(n.cls)
	case ckRef:
		p.sb.WriteString(`\1`)
	case ckRep:
		k := n.kids[0]
		if k.k == ckRep {
			p.sb.WriteString("(?:")
			p.node(k, 0)
			p.sb.WriteByte(')')
		} else {
			p.node(k, 2)
		}
		p.sb.WriteString(n.q)
	case ckCap:
		p.sb.WriteByte('(')
		p.node(n.kids[0], 0)
		p.sb.WriteByte(')')
	case ckWrap:
		p.sb.WriteString(n.q)
		p.node(n.kids[0], 0)
		p.sb.WriteByte(')')
	case ckCat:
		if prec >= 2 {
			p.sb.WriteString("(?:")
		}
		for _, k := range n.kids {
			p.node(k, 1)
		}
		if prec >= 2 {
			p.sb.WriteByte(')')
		}
	case ckAlt:
		if prec >= 1 {
			p.sb.WriteString("(?:")
		}
		for i, k := range n.kids {
			if i > 0 {
				p.sb.WriteByte('|')
			}
			p.node(k, 0)
		}
		if prec >= 1 {
			p.sb.WriteByte(')')
		}
	}
}

func (n *cnode) print(L *c20Letters, mask uint32) string {
	p := cprinter{mask: mask, L: L}
	p.node(n, 0)
	return p.sb.String()
}

func cstr(s string) *cnode { return &cnode{k: ckStr, s: s} }
func ccls(neg bool, sub *cclass, items ...citem) *cclass {
	return &cclass{neg: neg, items: items, sub: sub}
}
func cclsNode(c *cclass) *cnode { return &cnode{k: ckClass, cls: c} }

func c20Leaves(kind string) []*cnode {
	a, b := citem{lo: 'a'}, citem{lo: 'b'}
	ab, ac := citem{'a', 'b'}, citem{'a', 'c'}
	if kind == "category" {
		out := []*cnode{cstr("a"), cstr("b")}
		for _, t := range []string{`\p{Ll}`, `\p{Lu}`, `\p{Lt}`, `\P{Ll}`, `\P{Lu}`, `\p{L}`, `[\p{Ll}]`, `[^\p{Ll}]`, `[\P{Lu}]`, `[^\P{Lu}]`, `[\p{Lu}b]`, `[\p{Lu}-[b]]`, `[a-c-[\p{Lu}]]`,
			`\p{Lowercase_Letter}`, `\p{Uppercase_Letter}`, `\P{Lowercase_Letter}`, `[\p{Uppercase_Letter}]`} {
			out = append(out, &cnode{k: ckRaw, s: t})
		}
		return out
	}
	if kind == "norange" {
		// no range items: flipping both end points of a range is only a case flip where the two case blocks are aligned
		return []*cnode{
			cstr("a"), cstr("b"), cstr("ab"), cstr("ba"), cstr("abb"),
			{k: ckDot},
			cclsNode(ccls(false, nil, a, b)),                 // [ab]
			cclsNode(ccls(true, nil, a)),                     // [^a]
			cclsNode(ccls(true, nil, a, b)),                  // [^ab]
			cclsNode(ccls(false, ccls(false, nil, b), a, b)), // [ab-[b]]
			cclsNode(ccls(true, ccls(false, nil, b), a)),     // [^a-[b]]
			{k: ckRef},
		}
	}
	if kind == "reduced" {
		return []*cnode{
			cstr("a"), cstr("ab"), cstr("abb"),
			{k: ckDot},
			cclsNode(ccls(true, nil, a)),                   // [^a]
			cclsNode(ccls(false, nil, ab)),                 // [a-b]
			cclsNode(ccls(false, ccls(false, nil, b), ac)), // [a-c-[b]]
			{k: ckRef},
		}
	}
	out := []*cnode{
		cstr("a"), cstr("b"), cstr("ab"), cstr("ba"), cstr("abb"),
		{k: ckEsc, s: "a"}, // \u0061
		{k: ckDot},
		cclsNode(ccls(false, nil, a, b)),                                // [ab]
		cclsNode(ccls(true, nil, a)),                                    // [^a]
		cclsNode(ccls(true, nil, a, b)),                                 // [^ab]
		cclsNode(ccls(false, nil, ab)),                                  // [a-b]
		cclsNode(ccls(true, nil, ab)),                                   // [^a-b]
		cclsNode(ccls(false, nil, ac)),                                  // [a-c]
		cclsNode(ccls(false, ccls(false, nil, b), ab)),                  // [a-b-[b]]
		cclsNode(ccls(false, ccls(false, nil, b), a, b)),                // [ab-[b]]
		cclsNode(ccls(false, ccls(false, nil, b), ac)),                  // [a-c-[b]]
		cclsNode(ccls(true, ccls(false, nil, b), a)),                    // [^a-[b]]
		cclsNode(ccls(false, ccls(false, nil, ab), ac)),                 // [a-c-[a-b]]
		cclsNode(ccls(false, ccls(true, nil, b), ac)),                   // [a-c-[^b]]
		cclsNode(ccls(false, ccls(false, ccls(false, nil, a), ab), ac)), // [a-c-[a-b-[a]]]
		{k: ckRef},
	}
	if kind == "wide" {
		out = append(out, cstr("aa"), cstr("bab"), cclsNode(ccls(true, ccls(true, nil, a), b))) // [^b-[^a]]
	}
	return out
}

type c20Grammar struct {
	leaves []*cnode
	quants []string
	wraps  []string
	memo   map[int][]*cnode
}

func (g *c20Grammar) gen(n int) []*cnode {
	if v, ok := g.memo[n]; ok {
		return v
	}
	var out []*cnode
	if n == 1 {
		out = g.leaves
	} else {
		for _, kid := range g.gen(n - 1) {
			for _, q := range g.quants {
				out = append(out, &cnode{k: ckRep, q: q, kids: []*cnode{kid}})
			}
			out = append(out, &cnode{k: ckCap, kids: []*cnode{kid}})
			for _, w := range g.wraps {
				out = append(out, &cnode{k: ckWrap, q: w, kids: []*cnode{kid}})
			}
		}
		for k := 2; k <= n-1; k++ {
			compositions(n-1, k, func(parts []int) {
				var rec func(i int, acc []*cnode, kind ckind)
				rec = func(i int, acc []*cnode, kind ckind) {
					if i == len(parts) {
						out = append(out, &cnode{k: kind, kids: append([]*cnode{}, acc...)})
						return
					}
					for _, c := range g.gen(parts[i]) {
						if c.k == kind {
							continue
						}
						rec(i+1, append(acc, c), kind)
					}
				}
				rec(0, nil, ckCat)
				rec(0, nil, ckAlt)
			})
		}
	}
	g.memo[n] = out
	return out
}

// c20Family returns the distinct patterns of exactly the given sizes, simplest first.
func c20Family(g *c20Grammar, minSize, maxSize int, seen map[string]bool) []*cnode {
	var out []*cnode
	for n := 1; n <= maxSize; n++ {
		var level []*cnode
		for _, t := range g.gen(n) {
			if t.hasRef() && t.caps() == 0 {
				continue // \1 needs a group
			}
			s := t.print(&c20ASCII, 0)
			if seen[s] {
				continue
			}
			seen[s] = true
			if n >= minSize {
				level = append(level, t)
			}
		}
		sort.SliceStable(level, func(i, j int) bool { return level[i].units() < level[j].units() })
		out = append(out, level...)
	}
	return out
}

// ---------------------------------------------------------------------------------------------
// inputs

type c20Input struct {
	runes []rune
	s     string
	off   []int
	mask  int
}

type c20InputSet struct {
	base [][]c20Input // per base input (lower case), every case variant; [i][0] is the base itself
	n    int
}

// c20Inputs: every string up to maxLen over alpha (lower-case runes), each with all case masks of
// its cased positions (positions holding a rune of `cased`).
func c20Inputs(alpha []rune, upper map[rune]rune, maxLen int) *c20InputSet {
	set := &c20InputSet{}
	for _, b := range allStrings(alpha, maxLen) {
		var pos []int
		for i, r := range b {
			if _, ok := upper[r]; ok {
				pos = append(pos, i)
			}
		}
		var vs []c20Input
		for m := 0; m < 1<<len(pos); m++ {
			v := append([]rune{}, b...)
			for j, p := range pos {
				if m&(1<<j) != 0 {
					v[p] = upper[v[p]]
				}
			}
			vs = append(vs, c20Input{runes: v, s: string(v), off: byteOffsets(v), mask: m})
		}
		set.base = append(set.base, vs)
		set.n += len(vs)
	}
	return set
}

// ---------------------------------------------------------------------------------------------
// evaluation of one compiled pattern on one input: all entry points

const (
	c20eRunes = iota // FindRunesMatchStartingAt(in, st) for every st
	c20eStrAt        // FindStringMatchStartingAt(s, byte offset of st) for every st
	c20eStr          // FindStringMatch(s)
	c20eBoolS        // MatchString(s)
	c20eBoolR        // MatchRunes(in)
	c20nEntry
)

var c20EntryName = [...]string{"FindRunesMatchStartingAt", "FindStringMatchStartingAt", "FindStringMatch", "MatchString", "MatchRunes"}

func c20Call(re *regexp2.Regexp, e int, in *c20Input, st int) mres {
	switch e {
	case c20eRunes:
		return fromMatch(re.FindRunesMatchStartingAt(in.runes, st))
	case c20eStrAt:
		return fromMatch(re.FindStringMatchStartingAt(in.s, in.off[st]))
	case c20eStr:
		return fromMatch(re.FindStringMatch(in.s))
	case c20eBoolS:
		ok, err := re.MatchString(in.s)
		if err != nil {
			return mres{err: err.Error()}
		}
		return mres{ok: ok}
	default:
		ok, err := re.MatchRunes(in.runes)
		if err != nil {
			return mres{err: err.Error()}
		}
		return mres{ok: ok}
	}
}

// c20StrAt: also call FindStringMatchStartingAt at every start offset (thorough tier).
var c20StrAt bool

func c20AtEntries() int {
	if c20StrAt {
		return 2
	}
	return 1
}

// c20Ref: the results of the orbit's first member on one base input.
type c20Ref struct {
	at   [2][]mres // c20eRunes, c20eStrAt per start offset
	once [3]mres   // c20eStr, c20eBoolS, c20eBoolR
	hit  bool      // some entry point found a match
}

func c20Reference(re *regexp2.Regexp, in *c20Input) c20Ref {
	var r c20Ref
	n := len(in.runes)
	for e := 0; e < c20AtEntries(); e++ {
		r.at[e] = make([]mres, n+1)
		for st := 0; st <= n; st++ {
			r.at[e][st] = c20Call(re, e, in, st)
			if r.at[e][st].ok {
				r.hit = true
			}
		}
	}
	for e := c20eStr; e < c20nEntry; e++ {
		r.once[e-c20eStr] = c20Call(re, e, in, 0)
	}
	return r
}

type c20Diff struct {
	entry, st int
	want, got mres
}

// c20Compare evaluates re on in through every entry point and compares with ref. A panic inside
// the engine is returned as a difference (entry -1) so that the orbit member is known.
func c20Compare(re *regexp2.Regexp, in *c20Input, ref *c20Ref) (evals int64, d *c20Diff) {
	defer func() {
		if r := recover(); r != nil {
			d = &c20Diff{entry: -1, got: mres{err: panicText(r)}}
		}
	}()
	n := len(in.runes)
	for e := 0; e < c20AtEntries(); e++ {
		for st := 0; st <= n; st++ {
			evals++
			got := c20Call(re, e, in, st)
			if !got.equal(ref.at[e][st]) {
				return evals, &c20Diff{e, st, ref.at[e][st], got}
			}
		}
	}
	for e := c20eStr; e < c20nEntry; e++ {
		evals++
		got := c20Call(re, e, in, 0)
		if !got.equal(ref.once[e-c20eStr]) {
			return evals, &c20Diff{e, 0, ref.once[e-c20eStr], got}
		}
	}
	return evals, nil
}

func c20Violation(leg string, opts optSet, basePat, varPat string, baseIn, varIn *c20Input, d *c20Diff, note string) *Violation {
	if d.entry < 0 {
		return &Violation{
			Leg: "panic", Key: "panic|" + string(opts) + "|" + basePat, Pattern: basePat, Options: string(opts), Input: q(varIn.s),
			Detail: fmt.Sprintf("%s on orbit member (pattern %q, input %q)%s", d.got.err, varPat, varIn.s, note),
			Extra:  map[string]any{"base_pattern": basePat, "variant_pattern": varPat, "base_input_runes": baseIn.runes, "input_runes": varIn.runes, "start": 0, "entry": -1},
		}
	}
	return &Violation{
		Leg: leg, Key: leg + "|" + string(opts) + "|" + basePat, Pattern: basePat, Options: string(opts), Input: q(varIn.s),
		Detail: fmt.Sprintf("%s start=%d: orbit's first member (pattern %q, input %q) gives %s, member (pattern %q, input %q) gives %s%s",
			c20EntryName[d.entry], d.st, basePat, baseIn.s, d.want, varPat, varIn.s, d.got, note),
		Extra: map[string]any{"base_pattern": basePat, "variant_pattern": varPat, "base_input_runes": baseIn.runes, "input_runes": varIn.runes,
			"start": d.st, "entry": d.entry},
	}
}

// ---------------------------------------------------------------------------------------------
// one CASE family job

type c20Job struct {
	name    string
	pats    []*cnode
	opts    optSet
	L       *c20Letters
	maxL    int
	product bool // full product of pattern masks x input masks (otherwise one side at a time)
}

type c20Local struct {
	evals, nontrivial, variants int64
	modes                       map[string]int64
}

// c20Dump appends every violation (also beyond the recording cap) to the file named by
// VERIF_C20_DUMP, one JSON object per line; a triage aid, off by default.
var c20DumpMu sync.Mutex

func c20Dump(v *Violation) {
	path := os.Getenv("VERIF_C20_DUMP")
	if path == "" {
		return
	}
	c20DumpMu.Lock()
	defer c20DumpMu.Unlock()
	if f, err := os.OpenFile(path, os.O_APPEND|os.O_CREATE|os.O_WRONLY, 0o644); err == nil {
		b, _ := json.Marshal(v)
		f.Write(append(b, '\n'))
		f.Close()
	}
}

// c20RunPattern explores the whole orbit of one base pattern. It returns at most one violation per leg.
func c20RunPattern(jb *c20Job, t *cnode, ins *c20InputSet, loc *c20Local) (out []*Violation) {
	basePat := t.print(jb.L, 0)
	copts := jb.opts.compileOptions()
	re0, err := regexp2.Compile(basePat, copts...)
	if err != nil {
		return []*Violation{{Leg: "compile", Key: "compile|" + string(jb.opts) + "|" + basePat, Pattern: basePat, Options: string(jb.opts),
			Detail: "enumerated pattern does not compile: " + err.Error()}}
	}
	refs := make([]c20Ref, len(ins.base))
	for bi := range ins.base {
		refs[bi] = c20Reference(re0, &ins.base[bi][0])
	}
	k := t.units()
	failed := map[string]bool{}
	for m := uint32(0); m < 1<<uint(k); m++ {
		re, varPat := re0, basePat
		if m != 0 {
			varPat = t.print(jb.L, m)
			re, err = regexp2.Compile(varPat, copts...)
			if err != nil {
				if !failed["compile"] {
					failed["compile"] = true
					out = append(out, &Violation{Leg: "pattern-case/compile", Key: "pattern-case/compile|" + string(jb.opts) + "|" + basePat, Pattern: basePat, Options: string(jb.opts),
						Detail: fmt.Sprintf("%q compiles but its case variant %q does not: %v", basePat, varPat, err),
						Extra:  map[string]any{"base_pattern": basePat, "variant_pattern": varPat, "entry": -1}})
				}
				continue
			}
		}
		loc.variants++
		code := re.VerifCode()
		mode := code.FindOptimizations.FindMode.String()
		if re.VerifHasStringPrefixFilter() {
			mode += "+string-prefix-filter"
		}
		loc.modes[mode]++
		for bi := range ins.base {
			vs := ins.base[bi]
			lim := len(vs)
			if m != 0 && !jb.product {
				lim = 1 // one side at a time
			}
			for vi := 0; vi < lim; vi++ {
				if m == 0 && vi == 0 {
					continue // the reference itself
				}
				leg := "both-case"
				if m == 0 {
					leg = "input-case"
				} else if vi == 0 {
					leg = "pattern-case"
				}
				if failed[leg] || (leg == "both-case" && (failed["input-case"] || failed["pattern-case"])) {
					continue
				}
				n, d := c20Compare(re, &vs[vi], &refs[bi])
				loc.evals += n
				if refs[bi].hit {
					loc.nontrivial += n
				}
				if d != nil {
					failed[leg] = true
					out = append(out, c20Violation(leg, jb.opts, basePat, varPat, &vs[0], &vs[vi], d, " findmode="+mode))
				}
			}
		}
	}
	return out
}

func (c *Ctx) c20RunJobs(jobs []c20Job) {
	inputCache := map[string]*c20InputSet{}
	for ji := range jobs {
		jb := &jobs[ji]
		mode := "all pattern spellings x lower-case inputs, lower-case pattern x all input spellings"
		if jb.product {
			mode = "all pattern spellings x all input spellings"
		}
		famName := fmt.Sprintf("%s opts=%q %s L<=%d [%s]", jb.name, string(jb.opts), jb.L.name, jb.maxL, mode)
		if only := os.Getenv("VERIF_C20_ONLY"); only != "" && !strings.Contains(famName, only) {
			c.NotExhaustive("triage filter VERIF_C20_ONLY in effect: skipped " + famName)
			continue
		}
		if c.Expired() {
			c.NotExhaustive("internal deadline reached before " + famName)
			continue
		}
		fs := c.Fam(famName)
		ik := fmt.Sprintf("%s/%d", jb.L.name, jb.maxL)
		ins := inputCache[ik]
		if ins == nil {
			upper := map[rune]rune{}
			var alpha []rune
			for _, b := range []rune{'a', 'b', 'c'} {
				alpha = append(alpha, jb.L.pair[b][0])
				upper[jb.L.pair[b][0]] = jb.L.pair[b][1]
			}
			ins = c20Inputs(alpha, upper, jb.maxL)
			inputCache[ik] = ins
		}
		var fp, fe, fn, fv int64
		var mu sync.Mutex
		modes := map[string]int64{}
		var once sync.Once
		done := c.parallel(len(jb.pats), func(i int) {
			loc := &c20Local{modes: map[string]int64{}}
			vs := c20RunPattern(jb, jb.pats[i], ins, loc)
			atomic.AddInt64(&fp, 1)
			atomic.AddInt64(&fe, loc.evals)
			atomic.AddInt64(&fn, loc.nontrivial)
			atomic.AddInt64(&fv, loc.variants)
			mu.Lock()
			for k, v := range loc.modes {
				modes[k] += v
			}
			mu.Unlock()
			for _, v := range vs {
				c20Dump(v)
				c.Report(*v)
			}
			if i == len(jb.pats)*2/3 {
				once.Do(func() {
					t := jb.pats[i]
					k := t.units()
					c.Sample(map[string]any{"family": famName, "pattern": t.print(jb.L, 0), "letter_units": k, "last_pattern_variant": t.print(jb.L, 1<<uint(k)-1),
						"base_inputs": len(ins.base), "input_variants": ins.n})
				})
			}
		}, func(i int, r any) {
			p := jb.pats[i].print(jb.L, 0)
			c.Report(Violation{Leg: "panic", Key: "panic|" + string(jb.opts) + "|" + p, Pattern: p, Options: string(jb.opts), Detail: panicText(r) + " (somewhere in the case orbit of this pattern; letters " + jb.L.name + ")"})
		})
		fs.Patterns, fs.Evaluations, fs.Nontrivial, fs.Complete = fp, fe, fn, done
		fs.Note = fmt.Sprintf("%d compiled pattern spellings; %d base inputs, %d input spellings", fv, len(ins.base), ins.n)
		if !done {
			c.NotExhaustive("internal deadline reached inside " + famName)
		}
		c.Eval(fe)
		c.Nontrivial(fn)
		for k, v := range modes {
			c.Outcome("findmode:"+k, v)
		}
		c.Outcome("pattern spellings compiled", fv)
	}
}

// ---------------------------------------------------------------------------------------------
// CORPUS leg (pattern texts, not trees)

var c20InlineOff = regexp.MustCompile(`\(\?[A-Za-z]*-[A-Za-z]*i`)

// c20CorpusAlphabet: the first three distinct simple-pair letters of the pattern (lower case) and one
// uncased rune (the first digit of the pattern, else a blank).
func c20CorpusAlphabet(src string) (alpha []rune, upper map[rune]rune) {
	upper = map[rune]rune{}
	other := rune(' ')
	gotOther := false
	for _, r := range src {
		if lo, up, ok := simplePairLetter(r); ok {
			if _, seen := upper[lo]; !seen && len(upper) < 3 {
				upper[lo] = up
				alpha = append(alpha, lo)
			}
		} else if unicode.IsDigit(r) && !gotOther {
			other, gotOther = r, true
		}
	}
	alpha = append(alpha, other)
	return
}

// c20Flippable returns the indices (into the rune slice) of letters that are certainly literal
// characters outside classes: not part of an escape, a group header, a quantifier or a class.
func c20Flippable(src []rune) []int {
	var out []int
	n := len(src)
	skipTo := func(i int, close rune) int {
		for i < n && src[i] != close {
			i++
		}
		return i + 1
	}
	i := 0
	for i < n {
		ch := src[i]
		switch {
		case ch == '\\':
			if i+1 >= n {
				return out
			}
			e := src[i+1]
			i += 2
			switch e {
			case 'x', 'u', 'o':
				if i < n && src[i] == '{' {
					i = skipTo(i, '}')
				} else if e == 'x' {
					i += 2
				} else {
					i += 4
				}
			case 'c':
				i++
			case 'p', 'P', 'k', 'g', 'N':
				if i < n {
					switch src[i] {
					case '{':
						i = skipTo(i, '}')
					case '<':
						i = skipTo(i, '>')
					case '\'':
						i = skipTo(i+1, '\'')
					default:
						i++
					}
				}
			}
		case ch == '[':
			// skip the whole class, including nested brackets
			depth := 1
			i++
			if i < n && src[i] == '^' {
				i++
			}
			if i < n && src[i] == ']' {
				i++
			}
			for i < n && depth > 0 {
				switch src[i] {
				case '\\':
					i++
				case '[':
					depth++
				case ']':
					depth--
				}
				i++
			}
		case ch == '(' && i+1 < n && src[i+1] == '?':
			i += 2
			if i >= n {
				return out
			}
			switch src[i] {
			case '#':
				i = skipTo(i, ')')
			case '(':
				depth := 1
				i++
				for i < n && depth > 0 {
					switch src[i] {
					case '\\':
						i++
					case '(':
						depth++
					case ')':
						depth--
					}
					i++
				}
			case '<':
				if i+1 < n && (src[i+1] == '=' || src[i+1] == '!') {
					i += 2
				} else {
					i = skipTo(i, '>')
				}
			case '\'':
				i = skipTo(i+1, '\'')
			case 'P':
				if i+1 < n && src[i+1] == '<' {
					i = skipTo(i, '>')
				} else {
					i = skipTo(i, ')')
				}
			case '=', '!', '>', ':':
				i++
			default:
				for i < n && src[i] != ':' && src[i] != ')' {
					i++
				}
				i++
			}
		case ch == '{':
			j := i + 1
			for j < n && src[j] != '}' {
				j++
			}
			if j < n {
				i = j + 1
			} else {
				i++
			}
		default:
			if _, _, ok := simplePairLetter(ch); ok {
				out = append(out, i)
			}
			i++
		}
	}
	return out
}

func c20FlipRunes(src []rune, idx []int) string {
	v := append([]rune{}, src...)
	for _, i := range idx {
		if unicode.IsLower(v[i]) {
			v[i] = unicode.ToUpper(v[i])
		} else {
			v[i] = unicode.ToLower(v[i])
		}
	}
	return string(v)
}

func (c *Ctx) c20RunCorpus(pats []Pat, opts optSet, maxL int) {
	famName := fmt.Sprintf("CORPUS opts=%q per-pattern alphabet (first 3 simple-pair letters + 1 uncased rune) L<=%d [all input masks; each literal letter outside classes flipped alone and all together]", string(opts), maxL)
	if c.Expired() {
		c.NotExhaustive("internal deadline reached before " + famName)
		return
	}
	if only := os.Getenv("VERIF_C20_ONLY"); only != "" && !strings.Contains(famName, only) {
		c.NotExhaustive("triage filter VERIF_C20_ONLY in effect: skipped " + famName)
		return
	}
	fs := c.Fam(famName)
	copts := opts.compileOptions()
	var fp, fe, fn, fv, skippedOff, skippedCompile, noLetters int64
	var once sync.Once
	done := c.parallel(len(pats), func(i int) {
		src := pats[i].Src
		if c20InlineOff.MatchString(src) {
			atomic.AddInt64(&skippedOff, 1)
			return
		}
		re0, err := regexp2.Compile(src, copts...)
		if err != nil {
			atomic.AddInt64(&skippedCompile, 1)
			return
		}
		alpha, upper := c20CorpusAlphabet(src)
		if len(upper) == 0 {
			atomic.AddInt64(&noLetters, 1)
			return
		}
		ins := c20Inputs(alpha, upper, maxL)
		refs := make([]c20Ref, len(ins.base))
		var evals, nontriv int64
		var bad []*Violation
		// input side
	inputSide:
		for bi := range ins.base {
			vs := ins.base[bi]
			refs[bi] = c20Reference(re0, &vs[0])
			for vi := 1; vi < len(vs); vi++ {
				n, d := c20Compare(re0, &vs[vi], &refs[bi])
				evals += n
				if refs[bi].hit {
					nontriv += n
				}
				if d != nil {
					bad = append(bad, c20Violation("corpus/input-case", opts, src, src, &vs[0], &vs[vi], d, ""))
					for bj := bi + 1; bj < len(ins.base); bj++ {
						refs[bj] = c20Reference(re0, &ins.base[bj][0])
					}
					break inputSide
				}
			}
		}
		// pattern side
		rs := []rune(src)
		fl := c20Flippable(rs)
		var variants [][]int
		for _, p := range fl {
			variants = append(variants, []int{p})
		}
		if len(fl) > 1 {
			variants = append(variants, fl)
		}
	patternSide:
		for _, idx := range variants {
			varPat := c20FlipRunes(rs, idx)
			re, err := regexp2.Compile(varPat, copts...)
			if err != nil {
				bad = append(bad, &Violation{Leg: "corpus/pattern-case/compile", Key: "corpus/pattern-case/compile|" + string(opts) + "|" + src, Pattern: src, Options: string(opts),
					Detail: fmt.Sprintf("%q compiles but its case variant %q does not: %v", src, varPat, err),
					Extra:  map[string]any{"base_pattern": src, "variant_pattern": varPat, "entry": -1}})
				break
			}
			atomic.AddInt64(&fv, 1)
			for bi := range ins.base {
				vs := ins.base[bi]
				for _, vi := range []int{0, len(vs) - 1} {
					if vi == 0 || len(vs) > 1 {
						n, d := c20Compare(re, &vs[vi], &refs[bi])
						evals += n
						if refs[bi].hit {
							nontriv += n
						}
						if d != nil {
							bad = append(bad, c20Violation("corpus/pattern-case", opts, src, varPat, &vs[0], &vs[vi], d, ""))
							break patternSide
						}
					}
				}
			}
		}
		atomic.AddInt64(&fp, 1)
		atomic.AddInt64(&fe, evals)
		atomic.AddInt64(&fn, nontriv)
		for _, v := range bad {
			c20Dump(v)
			c.Report(*v)
		}
		if i == len(pats)/2 {
			once.Do(func() {
				c.Sample(map[string]any{"family": famName, "pattern": src, "alphabet": string(alpha), "base_inputs": len(ins.base), "input_variants": ins.n, "flippable_pattern_letters": len(fl)})
			})
		}
	}, func(i int, r any) {
		c.Report(Violation{Leg: "panic", Key: "panic|" + string(opts) + "|" + pats[i].Src, Pattern: pats[i].Src, Options: string(opts), Detail: panicText(r) + " (corpus pattern, somewhere in its case orbit)"})
	})
	fs.Patterns, fs.Evaluations, fs.Nontrivial, fs.Complete = fp, fe, fn, done
	fs.Note = fmt.Sprintf("%d of %d corpus patterns explored (%d do not compile with these options, %d switch IgnoreCase off inline, %d have no simple-pair letter); %d pattern case variants compiled",
		fp, len(pats), skippedCompile, skippedOff, noLetters, fv)
	if !done {
		c.NotExhaustive("internal deadline reached inside " + famName)
	}
	c.Eval(fe)
	c.Nontrivial(fn)
}

// ---------------------------------------------------------------------------------------------

func runC20(c *Ctx) {
	// every call returns a fresh Match: the run is allocation bound, a larger heap target halves the wall time
	debug.SetGCPercent(400)
	c.Level = "exploration"
	thorough := c.Tier == "thorough"
	if thorough {
		c.SetBudget(40 * time.Minute)
	} else {
		c.SetBudget(170 * time.Second)
	}
	c.Rule = "CASE family: every pattern printed from the CASE grammar (leaves: literal runs a b ab ba abb, the escape \\u0061, '.', classes [ab] [^a] [^ab] [a-b] [^a-b] [a-c], subtractions [a-b-[b]] [ab-[b]] [a-c-[b]] [^a-[b]] [a-c-[a-b]] [a-c-[^b]] [a-c-[a-b-[a]]], \\1; quantifiers * + ? *? {2}; capture group; concatenation; alternation; thorough adds +? {1,2} (?<= ) (?= ) (?> ) and three more leaves) up to the size bound, compiled with IgnoreCase (plus G = code-gen analysis, R = RightToLeft) x every input up to the length bound (3 or 4, listed per family) over the three lower-case letters of the profile. For every such (pattern, input) the whole case orbit is enumerated: all 2^k spellings of the pattern (one bit per literal letter occurrence / class member / range; the two end points of a range change together) and all 2^len spellings of the input - as a full product for the smaller patterns, and one side at a time (all pattern spellings on the lower-case inputs, all input spellings on the lower-case pattern) beyond; each family name says which. Oracle: FindRunesMatchStartingAt at every start offset (thorough: also FindStringMatchStartingAt at every start offset), FindStringMatch, MatchString and MatchRunes return for every orbit member exactly what they return for the orbit's first (all lower-case) member: found, index, length and the complete capture list of every group. CASE-R is the same grammar with the reduced leaf menu a ab abb . [^a] [a-b] [a-c-[b]] \\1 and quantifiers * ? {2} (size 5 also (?<= )), driven one size further; CASE-C has the leaves a, b and the case-related category escapes \\p{Ll} \\p{Lu} \\p{Lt} \\P{Ll} \\P{Lu} \\p{L} \\p{Lowercase_Letter} \\p{Uppercase_Letter} \\P{Lowercase_Letter}, alone and inside classes, negated classes and subtractions. Letter profiles: ASCII, Latin-1, Greek, Cyrillic; every letter used has a two-element fold orbit (checked with unicode.SimpleFold at start-up). CORPUS: every usable pattern shipped in /repo compiled with IgnoreCase x every input up to length 3 over the pattern's first three simple-pair letters plus one uncased rune x all input spellings, and every literal letter outside classes/escapes/group headers flipped alone and all together. A comparison is non-trivial when the orbit's first member matches somewhere in that input."
	c.Assume("the property is read for letters whose fold orbit is a simple upper/lower pair only: a b c, é ñ ü, δ λ ξ, г ж л (checked against unicode.SimpleFold/ToUpper/ToLower at start-up); k, s, i, σ, д and the like are not used as input letters")
	c.Assume("a range in a class is one case unit: [a-b] and [A-B] are in one orbit, [A-b] (a different range) is not")
	c.Assume("the same entry point is compared across the orbit (agreement between entry points is C02's subject)")
	c.Assume("CORPUS: patterns that switch IgnoreCase off inline ((?-i) / (?-i:...)) are outside the property and are skipped; only letters that are certainly literals (outside classes, escapes, group headers, braces) are flipped in corpus patterns")

	for _, L := range []*c20Letters{&c20ASCII, &c20Latin1, &c20Greek, &c20Cyrillic} {
		for b, pr := range L.pair {
			if !simplePair(pr[0], pr[1]) {
				c.Report(Violation{Leg: "harness", Key: "harness|profile|" + L.name, Detail: fmt.Sprintf("profile letter %c: %c/%c is not a simple fold pair", b, pr[0], pr[1])})
				return
			}
		}
	}

	// three grammars: CASE (the full leaf menu), CASE-R (reduced menu, driven one size further),
	// CASE-W (thorough: wider menu with lookarounds and atomic groups, small sizes)
	quants := []string{"*", "+", "?", "*?", "{2}"}
	gFull := &c20Grammar{leaves: c20Leaves("full"), quants: quants, memo: map[int][]*cnode{}}
	gRed := &c20Grammar{leaves: c20Leaves("reduced"), quants: []string{"*", "?", "{2}"}, memo: map[int][]*cnode{}}
	seen := map[string]bool{}
	small := c20Family(gFull, 1, 3, seen)
	var jobs []c20Job
	add := func(name string, pats []*cnode, o optSet, L *c20Letters, maxL int, product bool) {
		jobs = append(jobs, c20Job{name: name, pats: pats, opts: o, L: L, maxL: maxL, product: product})
	}
	profiles := []*c20Letters{&c20Latin1, &c20Greek, &c20Cyrillic}
	corpus := corpusPatterns()
	gCat := &c20Grammar{leaves: c20Leaves("category"), quants: []string{"*", "+?"}, memo: map[int][]*cnode{}}
	catSize := 2
	if thorough {
		catSize = 3
	}
	cat := c20Family(gCat, 1, catSize, map[string]bool{})
	// ALPHA: the small CASE grammar over EVERY letter below U+0530 whose fold orbit is a simple pair (ASCII a..z,
	// Latin-1, Latin Extended, Greek, Cyrillic), three letters at a time in code-point order: the fold tables and
	// the ASCII fast paths have range boundaries (z, Z, U+00FF, ...) that three fixed letters never touch
	var alpha []*c20Letters
	{
		var ls [][2]rune
		for r := rune('a'); r < 0x530; r++ {
			if lo, up, ok := simplePairLetter(r); ok && lo == r {
				ls = append(ls, [2]rune{lo, up})
			}
		}
		for i := 0; i < len(ls); i += 3 {
			j := i
			if j+3 > len(ls) {
				j = len(ls) - 3
			}
			tr := ls[j : j+3]
			// the literal leaves only use the letters a and b: every rotation, so that each letter plays each part
			for rot := 0; rot < 3; rot++ {
				x, y, z := tr[rot%3], tr[(rot+1)%3], tr[(rot+2)%3]
				alpha = append(alpha, &c20Letters{fmt.Sprintf("alpha %c/%c %c/%c %c/%c", x[0], x[1], y[0], y[1], z[0], z[1]),
					map[rune][2]rune{'a': x, 'b': y, 'c': z}})
			}
		}
		c.extra["alpha_letters"] = len(ls)
	}
	small2 := c20Family(gFull, 1, 2, map[string]bool{})
	gNoRange := &c20Grammar{leaves: c20Leaves("norange"), quants: quants, memo: map[int][]*cnode{}}
	small2nr := c20Family(gNoRange, 1, 2, map[string]bool{})
	for _, L := range alpha {
		// ranges only where the three letters are consecutive and their capitals lie at one common distance
		a, b, cc := L.pair['a'], L.pair['b'], L.pair['c']
		aligned := b[0] == a[0]+1 && cc[0] == b[0]+1 && b[1]-b[0] == a[1]-a[0] && cc[1]-cc[0] == a[1]-a[0]
		fam, pats := "ALPHA size<=2 (no ranges)", small2nr
		if aligned {
			fam, pats = "ALPHA size<=2", small2
		}
		add(fam, pats, "i", L, 3, true)
		if thorough {
			add(fam, pats, "iG", L, 3, true)
			add(fam, pats, "iR", L, 2, true)
		}
	}
	if !thorough {
		add(fmt.Sprintf("CASE-C size<=%d", catSize), cat, "i", &c20ASCII, 3, true)
		red4 := c20Family(gRed, 4, 4, map[string]bool{})
		for _, o := range []optSet{"i", "iG", "iR"} {
			add("CASE size<=3", small, o, &c20ASCII, 3, true)
		}
		for _, L := range profiles {
			add("CASE size<=3", small, "i", L, 3, true)
		}
		add("CASE size<=3", small, "i", &c20ASCII, 4, false)
		add("CASE size<=3", small, "iG", &c20ASCII, 4, false)
		add("CASE-R size=4", red4, "i", &c20ASCII, 4, false)
		add("CASE-R size=4", red4, "iG", &c20ASCII, 4, false)
		add("CASE-R size=4", red4, "iR", &c20ASCII, 3, false) // smallest size with a backreference next to its group: \1(a) under RightToLeft
		for _, L := range profiles {
			add("CASE-R size=4", red4, "i", L, 3, false)
		}
		c.c20RunJobs(jobs)
		c.c20RunCorpus(corpus, "i", 3)
		return
	}
	c20StrAt = true
	gWide := &c20Grammar{leaves: c20Leaves("wide"), quants: append(quants, "+?", "{1,2}"), wraps: []string{"(?<=", "(?=", "(?>"}, memo: map[int][]*cnode{}}
	wide := c20Family(gWide, 1, 3, map[string]bool{})
	add("CASE-W size<=3", wide, "i", &c20ASCII, 4, true)
	add("CASE-W size<=3", wide, "iG", &c20ASCII, 3, true)
	add("CASE-W size<=3", wide, "iR", &c20ASCII, 3, true)
	for _, L := range profiles {
		for _, o := range []optSet{"i", "iG", "iR"} {
			add("CASE-W size<=3", wide, o, L, 3, true)
		}
	}
	add("CASE-W size<=3", wide, "i", &c20CyrillicDe, 3, true)
	for _, o := range []optSet{"i", "iG", "iR"} {
		add(fmt.Sprintf("CASE-C size<=%d", catSize), cat, o, &c20ASCII, 4, true)
	}
	c.c20RunJobs(jobs)
	c.c20RunCorpus(corpus, "i", 4)
	c.c20RunCorpus(corpus, "iG", 3)
	c.c20RunCorpus(corpus, "iR", 3)
	size4 := c20Family(gFull, 4, 4, seen)
	jobs = nil
	add("CASE size=4", size4, "i", &c20ASCII, 4, false)
	add("CASE size=4", size4, "iG", &c20ASCII, 3, false)
	add("CASE size=4", size4, "iR", &c20ASCII, 3, false)
	for _, L := range profiles {
		add("CASE size=4", size4, "i", L, 3, false)
	}
	c.c20RunJobs(jobs)
	gRed.wraps, gRed.memo = []string{"(?<="}, map[int][]*cnode{} // (?<=\1(a)): backreference compared leftwards
	red5 := c20Family(gRed, 5, 5, map[string]bool{})
	jobs = nil
	for _, o := range []optSet{"i", "iG", "iR"} {
		add("CASE-R size=5", red5, o, &c20ASCII, 3, false)
	}
	add("CASE-R size=5", red5, "i", &c20Greek, 3, false) // the other letter profiles stop at size 4
	c.c20RunJobs(jobs)
}

func replayC20(v Violation) (bool, string) {
	o := optSet(v.Options)
	basePat, _ := v.Extra["base_pattern"].(string)
	varPat, _ := v.Extra["variant_pattern"].(string)
	if basePat == "" {
		basePat = v.Pattern
	}
	if varPat == "" {
		varPat = basePat
	}
	re0, err := regexp2.Compile(basePat, o.compileOptions()...)
	if err != nil {
		return v.Leg == "compile", "base pattern: compile error: " + err.Error()
	}
	re, err := regexp2.Compile(varPat, o.compileOptions()...)
	if err != nil {
		return true, fmt.Sprintf("%q compiles, its case variant %q does not: %v", basePat, varPat, err)
	}
	runes := func(key string) []rune {
		var in []rune
		if xs, ok := v.Extra[key].([]any); ok {
			for _, x := range xs {
				in = append(in, rune(x.(float64)))
			}
		}
		return in
	}
	mk := func(r []rune) *c20Input { return &c20Input{runes: r, s: string(r), off: byteOffsets(r)} }
	b, in := mk(runes("base_input_runes")), mk(runes("input_runes"))
	e, st := 0, 0
	if f, ok := v.Extra["entry"].(float64); ok {
		e = int(f)
	}
	if f, ok := v.Extra["start"].(float64); ok {
		st = int(f)
	}
	if v.Leg == "panic" {
		ref := c20Reference(re0, b) // may panic itself: then the base member is the culprit
		_, d := c20Compare(re, in, &ref)
		if d != nil && d.entry < 0 {
			return true, fmt.Sprintf("(%q on %q): %s", varPat, in.s, d.got.err)
		}
		return false, "no panic on this tree"
	}
	if e < 0 || e >= c20nEntry || st > len(b.runes) || len(b.runes) != len(in.runes) {
		return false, "artefact has no usable entry/start"
	}
	want := c20Call(re0, e, b, st)
	got := c20Call(re, e, in, st)
	return !want.equal(got), fmt.Sprintf("%s start=%d: (%q on %q) = %s, (%q on %q) = %s", c20EntryName[e], st, basePat, b.s, want, varPat, in.s, got)
}
