package main

// C18: inline options equal compile-time options.
//
// Leg "spellings": for every pattern p, every subset O of {i,m,s,n,x} and every base option set B
// (none, RightToLeft, RE2, ECMAScript) the three spellings
//     Compile(p, B+O)      Compile("(?O)"+p, B)      Compile("(?O:"+p+")", B)
// must agree on whether the pattern compiles, on GetGroupNames/GetGroupNumbers and, on every
// input and every start offset, on the match and the complete capture list of every group.
// When x is in O the pattern text is printed with blanks between tokens and a trailing comment
// (the same text in all three spellings), so that the option is observable.
//
// Leg "toggles": patterns with nested option groups and in-group switches, assembled from small
// menus (surface syntax below), in all three spellings, against (a) the engine itself on the
// pattern obtained by pushing the options down to the leaves (each leaf wrapped in its own
// (?on-off:leaf) group, groups that n switches off written (?: ), blanks and comments that x
// ignores removed and the others written as escaped literals) and (b) the reference matcher of
// spec.go run on that tree. Where the numbering rule says that a referenced group does not exist
// every spelling must be rejected.
//
// Leg "TOK-x": an explicit list of the lexical corner cases of IgnorePatternWhitespace, each paired
// with the text that means the same without x.
//
// The replayer re-executes one recorded case (artefact kinds spellings / toggles / xcase) without
// any enumerator; for toggles the reference tree travels in the artefact as JSON.

import (
	"encoding/json"
	"errors"
	"fmt"
	"os"
	"slices"
	"sort"
	"strings"
	"sync/atomic"
	"time"

	regexp2 "github.com/dlclark/regexp2/v2"
	"github.com/dlclark/regexp2/v2/syntax"
)

func init() {
	register("C18", runC18)
	replayers["C18"] = replayC18
}

// ---------------------------------------------------------------------------------------------
// shared pieces

// The two inline spellings. When the last line of p contains a '#', p may end inside an x-mode
// comment (x from O or switched on by p itself) that would swallow the closing parenthesis of the
// wrapping form; then (and only when the plain wrapping is rejected) a newline, which x ignores,
// is put before the parenthesis.
func c18Leading(src string, O optSet) string  { return "(?" + string(O) + ")" + src }
func c18Wrapping(src string, O optSet) string { return "(?" + string(O) + ":" + src + ")" }

type c18Three struct {
	texts, names [3]string
	bases        [3]optSet
	res          [3]*regexp2.Regexp
	errs         [3]error
}

// c18CompileThree compiles Compile(p,B+O), Compile((?O)p,B), Compile((?O:p),B). For the empty O
// the leading spelling does not exist (slot 1 stays empty) and the wrapping one is (?:p).
func c18CompileThree(src string, O, base optSet) *c18Three {
	t := &c18Three{}
	t.texts[0], t.bases[0], t.names[0] = src, base+O, "Compile(p,"+string(base+O)+")"
	if O != "" {
		t.texts[1], t.bases[1], t.names[1] = c18Leading(src, O), base, "Compile((?"+string(O)+")p,"+string(base)+")"
	}
	t.texts[2], t.bases[2], t.names[2] = c18Wrapping(src, O), base, "Compile((?"+string(O)+":p),"+string(base)+")"
	for k := 0; k < 3; k++ {
		if t.texts[k] != "" {
			t.res[k], t.errs[k] = compileWith(t.texts[k], t.bases[k])
		}
	}
	if t.errs[2] != nil && strings.Contains(src[strings.LastIndexByte(src, '\n')+1:], "#") {
		alt := "(?" + string(O) + ":" + src + "\n)"
		if re, err := compileWith(alt, base); err == nil {
			t.texts[2], t.res[2], t.errs[2] = alt, re, nil
		}
	}
	return t
}

// c18MaskForm compiles src with the regex options of o OR-ed into one RegexOptions value (other compile options
// stay separate arguments, in both argument orders) and compares the program with the one compiled from
// separate arguments.
func c18MaskForm(src string, o optSet, sep *regexp2.Regexp) string {
	var mask regexp2.RegexOptions
	var others []regexp2.CompileOption
	n := 0
	for _, co := range o.compileOptions() {
		if ro, ok := co.(regexp2.RegexOptions); ok {
			mask |= ro
			n++
		} else {
			others = append(others, co)
		}
	}
	if n < 2 {
		return ""
	}
	for _, args := range [][]regexp2.CompileOption{append([]regexp2.CompileOption{mask}, others...), append(append([]regexp2.CompileOption{}, others...), mask)} {
		re, err := regexp2.Compile(src, args...)
		if err != nil {
			return fmt.Sprintf("Compile with the options OR-ed into one bitmask (%d) is rejected: %v; with separate arguments it compiles", int(mask), err)
		}
		a, b := re.VerifCode(), sep.VerifCode()
		if !slices.Equal(a.Codes, b.Codes) || fmt.Sprint(a.Strings) != fmt.Sprint(b.Strings) || len(a.Sets) != len(b.Sets) || fmt.Sprint(re.GetGroupNames(), re.GetGroupNumbers()) != fmt.Sprint(sep.GetGroupNames(), sep.GetGroupNumbers()) || re.RightToLeft() != sep.RightToLeft() {
			return fmt.Sprintf("Compile with the options OR-ed into one bitmask (%d) gives a different program / group map than the same options as separate arguments", int(mask))
		}
	}
	return ""
}

func c18ErrCode(err error) string {
	var se *syntax.Error
	if errors.As(err, &se) {
		return strings.TrimSpace(strings.ReplaceAll(se.Code.String(), "%v", ""))
	}
	return err.Error()
}

func c18GroupMap(re *regexp2.Regexp) string {
	return fmt.Sprint(re.GetGroupNames(), re.GetGroupNumbers())
}

// c18Diff describes where two spellings disagree.
type c18Diff struct {
	leg    string
	in     []rune
	st     int
	detail string
}

// c18CompareRegexps compares the compiled spellings on the group map and on every input/offset.
// baseline (optional) holds the results of the option-free compile; it is used to count the
// points at which the option set is observable.
func c18CompareRegexps(names [3]string, res [3]*regexp2.Regexp, inputs [][]rune, baseline []mres) (points, observable int64, d *c18Diff) {
	g0 := c18GroupMap(res[0])
	for k := 1; k < 3; k++ {
		if res[k] == nil {
			continue
		}
		if g := c18GroupMap(res[k]); g != g0 {
			return 0, 0, &c18Diff{leg: "groups", detail: fmt.Sprintf("group names/numbers: %s gives %s, %s gives %s", names[0], g0, names[k], g)}
		}
	}
	bi := 0
	for _, in := range inputs {
		for st := 0; st <= len(in); st++ {
			points++
			m0, e0 := res[0].FindRunesMatchStartingAt(in, st)
			if baseline != nil {
				if !c18MatchIs(m0, e0, &baseline[bi]) {
					observable++
				}
				bi++
			}
			for k := 1; k < 3; k++ {
				if res[k] == nil {
					continue
				}
				mk, ek := res[k].FindRunesMatchStartingAt(in, st)
				if !c18SameMatch(m0, e0, mk, ek) {
					return points, observable, &c18Diff{leg: "match", in: in, st: st, detail: fmt.Sprintf("%s gives %s, %s gives %s", names[0], fromMatch(m0, e0), names[k], fromMatch(mk, ek))}
				}
			}
		}
	}
	return
}

// c18SameMatch: equality of two results (match, index, length, capture list of every group)
// without building the comparable form unless there are groups to compare.
func c18SameMatch(a *regexp2.Match, ea error, b *regexp2.Match, eb error) bool {
	if ea != nil || eb != nil {
		return ea != nil && eb != nil && ea.Error() == eb.Error()
	}
	if a == nil || b == nil {
		return a == nil && b == nil
	}
	if a.RuneIndex != b.RuneIndex || a.RuneLength != b.RuneLength || a.GroupCount() != b.GroupCount() {
		return false
	}
	if a.GroupCount() == 1 {
		return true
	}
	return fromMatch(a, nil).equal(fromMatch(b, nil))
}

func c18MatchIs(a *regexp2.Match, ea error, b *mres) bool {
	if ea != nil || b.err != "" {
		return ea != nil && ea.Error() == b.err
	}
	if a == nil || !b.ok {
		return a == nil && !b.ok
	}
	if a.RuneIndex != b.idx || a.RuneLength != b.ln || a.GroupCount() != len(b.caps) {
		return false
	}
	if a.GroupCount() == 1 {
		return true
	}
	return fromMatch(a, nil).equal(*b)
}

func c18Baseline(re *regexp2.Regexp, inputs [][]rune) []mres {
	var out []mres
	for _, in := range inputs {
		for st := 0; st <= len(in); st++ {
			out = append(out, fromMatch(re.FindRunesMatchStartingAt(in, st)))
		}
	}
	return out
}

// ---------------------------------------------------------------------------------------------
// leg "spellings"

type c18SpellStat struct {
	points, observable, compiled, rejected, skipped int64
}

// c18Spellings checks one pattern under one base option set for every option subset in Os.
// plain / spaced are the two printings of the pattern (equal for text patterns); wellFormed says
// that the pattern is printed from an AST (then the three spellings must agree on rejection too).
func c18Spellings(c *Ctx, fam string, plain, spaced string, wellFormed bool, base optSet, Os []optSet, inputs [][]rune, st *c18SpellStat) {
	var baseline []mres
	if re, err := compileWith(plain, base); err == nil {
		baseline = c18Baseline(re, inputs)
	}
	for _, O := range Os {
		src := plain
		if O.has('x') {
			src = spaced
		}
		t3 := c18CompileThree(src, O, base)
		texts, names, res, errs := t3.texts, t3.names, t3.res, t3.errs
		report := func(leg string, in []rune, start int, detail string) {
			v := Violation{Leg: leg, Key: leg + "|" + string(base) + "+" + string(O) + "|" + src, Pattern: src, Options: string(base) + "+" + string(O),
				Detail: detail + " (family " + fam + ")", Extra: map[string]any{"kind": "spellings", "base": string(base), "O": string(O), "src": src, "well_formed": wellFormed}}
			if in != nil {
				v.Input = qr(in)
				v.Detail = fmt.Sprintf("start=%d ", start) + v.Detail
				v.Extra["input_runes"] = in
				v.Extra["start"] = start
			}
			c.Report(v)
		}
		if errs[0] != nil {
			// p is rejected under O. A text harvested from a corpus is then simply not a pattern
			// (textual wrapping could even repair it); a pattern printed from an AST must be rejected
			// in the inline spellings as well (e.g. \1 to a group that n turns off).
			if !wellFormed {
				// (the wrapping form can repair an unbalanced text; the leading form cannot)
				if texts[1] != "" && errs[1] == nil {
					report("compile", nil, 0, fmt.Sprintf("%s is rejected (%s); %s compiles", names[0], c18ErrCode(errs[0]), names[1]))
				}
				atomic.AddInt64(&st.skipped, 1)
				continue
			}
			bad := ""
			for k := 1; k < 3; k++ {
				if texts[k] != "" && errs[k] == nil {
					bad += fmt.Sprintf("; %s compiles", names[k])
				}
			}
			if bad != "" {
				report("compile", nil, 0, fmt.Sprintf("%s is rejected (%s)%s", names[0], c18ErrCode(errs[0]), bad))
			} else {
				atomic.AddInt64(&st.rejected, 1)
			}
			continue
		}
		bad := ""
		for k := 1; k < 3; k++ {
			if texts[k] != "" && errs[k] != nil {
				bad += fmt.Sprintf("; %s is rejected: %s", names[k], c18ErrCode(errs[k]))
			}
		}
		if bad != "" {
			report("compile", nil, 0, names[0]+" compiles"+bad)
			continue
		}
		atomic.AddInt64(&st.compiled, 1)
		// the compile-time spelling has two forms of its own: the option constants as separate arguments (what
		// compileWith passes) and one OR-ed bitmask (README: "individually or as a bitmask"); same program wanted
		if len(base+O) >= 2 {
			if msg := c18MaskForm(src, base+O, res[0]); msg != "" {
				report("bitmask", nil, 0, msg)
			}
		}
		var bl []mres
		if O != "" {
			bl = baseline
		}
		n, obs, d := c18CompareRegexps(names, res, inputs, bl)
		atomic.AddInt64(&st.points, n)
		atomic.AddInt64(&st.observable, obs)
		if d != nil {
			report(d.leg, d.in, d.st, d.detail)
		}
	}
}

// c18Spaced: the x printing of a tree (blanks between tokens, trailing comment). The comment is
// given an unbalanced parenthesis pair and a bracket, so that a scan of the text that does not
// know that x is on miscounts groups.
func c18Spaced(ast *Node) string {
	return strings.TrimSuffix(ast.Print(printOpts{spaced: true}), " # c\n") + " # c )([\n"
}

type c18SpellJob struct {
	fam   string
	pats  []Pat
	base  optSet
	Os    []optSet
	prof  profile
	maxL  int
	guard func(*Node) bool // patterns to leave out (recorded findings of other properties)
}

func (c *Ctx) c18RunSpellJobs(jobs []c18SpellJob) {
	for ji := range jobs {
		jb := &jobs[ji]
		famName := fmt.Sprintf("spellings %s base=%q x %d option subsets, %s L<=%d", jb.fam, string(jb.base), len(jb.Os), jb.prof.name, jb.maxL)
		if !c.c18FamWanted(famName) {
			continue
		}
		if c.Expired() {
			c.NotExhaustive("internal deadline reached before " + famName)
			continue
		}
		fs := c.Fam(famName)
		var inputs [][]rune
		if jb.prof.input != nil {
			raw := allStrings(jb.prof.input, jb.maxL)
			inputs = make([][]rune, len(raw))
			for i, in := range raw {
				inputs[i] = renameRunes(in, jb.prof.m)
			}
		}
		var st c18SpellStat
		var pats int64
		done := c.parallel(len(jb.pats), func(i int) {
			p := jb.pats[i]
			ins := inputs
			plain, spaced := p.Src, p.Src
			if p.AST != nil {
				ast := p.AST
				if jb.prof.m != nil {
					ast = rename(ast, jb.prof.m)
				}
				plain = ast.Print(printOpts{})
				spaced = c18Spaced(ast)
			} else {
				ins = allStrings(patternAlphabet(p.Src), jb.maxL)
			}
			atomic.AddInt64(&pats, 1)
			c18Spellings(c, jb.fam, plain, spaced, p.AST != nil, jb.base, jb.Os, ins, &st)
		}, func(i int, r any) {
			p := jb.pats[i]
			c.Report(Violation{Leg: "panic", Key: "panic|" + string(jb.base) + "|" + p.Src, Pattern: p.Src, Options: string(jb.base), Detail: panicText(r) + " (spellings, profile " + jb.prof.name + ")",
				Extra: map[string]any{"kind": "panic"}})
		})
		fs.Patterns, fs.Evaluations, fs.Nontrivial, fs.Complete = pats, st.points, st.observable, done
		fs.Note = fmt.Sprintf("(pattern,O) pairs: %d compiled in all spellings, %d rejected in all spellings, %d corpus texts that are not patterns under O", st.compiled, st.rejected, st.skipped)
		if !done {
			c.NotExhaustive("internal deadline reached inside " + famName)
		}
		c.Eval(st.points)
		c.Nontrivial(st.observable)
		c.Outcome("spellings: (pattern,O) compiled in all three spellings", st.compiled)
		c.Outcome("spellings: (pattern,O) rejected in all three spellings", st.rejected)
		c.Outcome("spellings: corpus text not a pattern under O (skipped)", st.skipped)
		if len(jb.pats) > 0 {
			p := jb.pats[len(jb.pats)*2/3]
			c.Sample(map[string]any{"family": famName, "pattern": p.Src, "spellings": []string{p.Src, c18Leading(p.Src, "im"), c18Wrapping(p.Src, "im")}})
		}
	}
}

// ---------------------------------------------------------------------------------------------
// leg "toggles": surface syntax with option groups, in-group switches and x fillers, and its
// lowering to a reference AST in which every leaf carries its own absolute option group.

type c18Env struct{ i, m, s, n, x bool }

func c18EnvFrom(o optSet) c18Env {
	return c18Env{i: o.has('i'), m: o.has('m'), s: o.has('s'), n: o.has('n'), x: o.has('x')}
}

// apply interprets an option header such as "im-s" or "-i+m" (letters after '-' are switched off,
// after '+' on again; letters are case-insensitive).
func (e c18Env) apply(h string) c18Env {
	off := false
	for _, ch := range h {
		v := !off
		switch ch {
		case '-':
			off = true
		case '+':
			off = false
		case 'i', 'I':
			e.i = v
		case 'm', 'M':
			e.m = v
		case 's', 'S':
			e.s = v
		case 'n', 'N':
			e.n = v
		case 'x', 'X':
			e.x = v
		}
	}
	return e
}

func (e c18Env) onOff() (on, off string) {
	for _, f := range []struct {
		b  bool
		ch string
	}{{e.i, "i"}, {e.m, "m"}, {e.s, "s"}} {
		if f.b {
			on += f.ch
		} else {
			off += f.ch
		}
	}
	return
}

type sKind int

const (
	sAtom   sKind = iota // a leaf (or a quantified leaf) of the pattern AST
	sFill                // blank / comment text: ignored where x is on (a (?#...) comment everywhere), literal otherwise
	sSwitch              // (?H)
	sGroup
)

const (
	gCap = iota
	gNamed
	gNonCap
	gOpt // (?H: )
	gAhead
	gBehind
	gAtomic
	gCond    // (?(N)yes|no)
	gCondExp // (?(expr)yes|no): alts[0] is the condition, alts[1] the yes branch, alts[2] the no branch
)

type sNode struct {
	k    sKind
	atom *Node
	txt  string // filler text, or option header of a switch / option group
	gk   int
	name string
	cond int
	alts [][]*sNode
	q    *quant
}

func sa(n *Node) *sNode        { return &sNode{k: sAtom, atom: n} }
func sf(txt string) *sNode     { return &sNode{k: sFill, txt: txt} }
func ssw(h string) *sNode      { return &sNode{k: sSwitch, txt: h} }
func sq(xs ...*sNode) []*sNode { return xs }
func sg(gk int, hdr string, alts ...[]*sNode) *sNode {
	g := &sNode{k: sGroup, gk: gk, alts: alts}
	if gk == gNamed {
		g.name = hdr
	} else {
		g.txt = hdr
	}
	return g
}
func (g *sNode) quantified(min, max int, lazy bool) *sNode {
	c := *g
	c.q = &quant{min, max, lazy}
	return &c
}

func c18PrintAlts(sb *strings.Builder, alts [][]*sNode) {
	for i, seq := range alts {
		if i > 0 {
			sb.WriteByte('|')
		}
		for _, s := range seq {
			switch s.k {
			case sAtom:
				s.atom.print(sb, 1, printOpts{})
			case sFill:
				sb.WriteString(s.txt)
			case sSwitch:
				sb.WriteString("(?" + s.txt + ")")
			case sGroup:
				switch s.gk {
				case gCap:
					sb.WriteString("(")
				case gNamed:
					sb.WriteString("(?<" + s.name + ">")
				case gNonCap:
					sb.WriteString("(?:")
				case gOpt:
					sb.WriteString("(?" + s.txt + ":")
				case gAhead:
					sb.WriteString("(?=")
				case gBehind:
					sb.WriteString("(?<=")
				case gAtomic:
					sb.WriteString("(?>")
				case gCond:
					fmt.Fprintf(sb, "(?(%d)", s.cond)
				case gCondExp:
					sb.WriteString("(?(")
					c18PrintAlts(sb, s.alts[:1])
					sb.WriteString(")")
					c18PrintAlts(sb, s.alts[1:])
					sb.WriteByte(')')
					if s.q != nil {
						sb.WriteString(quantText(s.q.min, s.q.max, s.q.lazy))
					}
					continue
				}
				c18PrintAlts(sb, s.alts)
				sb.WriteByte(')')
				if s.q != nil {
					sb.WriteString(quantText(s.q.min, s.q.max, s.q.lazy))
				}
			}
		}
	}
}

func c18SurfaceText(alts [][]*sNode) string {
	var sb strings.Builder
	c18PrintAlts(&sb, alts)
	return sb.String()
}

var errC18IllFormed = errors.New("comment text containing a parenthesis where the model has x off")

func c18WrapLeaf(n *Node, e c18Env) *Node {
	if n.K == KRep {
		c := *n
		c.Kids = []*Node{c18WrapLeaf(n.Kids[0], e)}
		return &c
	}
	on, off := e.onOff()
	return &Node{K: KOpt, On: on, Off: off, Kids: []*Node{clone(n)}}
}

// c18LowerAlts: the documented scoping rules. Options changed by a switch last to the end of the
// enclosing group, across '|'; a group restores the options in force at its opening parenthesis.
func c18LowerAlts(alts [][]*sNode, e c18Env) (*Node, error) {
	var branches []*Node
	for _, seq := range alts {
		var parts []*Node
		for _, s := range seq {
			switch s.k {
			case sAtom:
				parts = append(parts, c18WrapLeaf(s.atom, e))
			case sFill:
				if strings.HasPrefix(s.txt, "(?#") || e.x {
					continue
				}
				if strings.ContainsAny(s.txt, "()") {
					return nil, errC18IllFormed
				}
				for _, r := range s.txt {
					parts = append(parts, c18WrapLeaf(lit(r), e))
				}
			case sSwitch:
				e = e.apply(s.txt)
			case sGroup:
				inner := e
				if s.gk == gOpt {
					inner = e.apply(s.txt)
				}
				var g *Node
				if s.gk == gCondExp {
					// the condition is kept free of option groups (the parser rejects them there): it is built from
					// atoms whose meaning does not depend on i, m, s over the alphabet in use ('.')
					var cparts []*Node
					for _, t := range s.alts[0] {
						if t.k != sAtom {
							return nil, errC18IllFormed
						}
						cparts = append(cparts, clone(t.atom))
					}
					cond := cat(cparts...)
					yes, err := c18LowerAlts(s.alts[1:2], inner)
					if err != nil {
						return nil, err
					}
					no, err := c18LowerAlts(s.alts[2:3], inner)
					if err != nil {
						return nil, err
					}
					// an option group may not stand directly in a branch of an expression conditional (.NET rule, kept by
					// the port): the pushed-down leaves are fenced by a plain non-capturing group
					g = &Node{K: KCondExp, Kids: []*Node{cond, {K: KGroup, Kids: []*Node{yes}}, {K: KGroup, Kids: []*Node{no}}}}
				} else if s.gk == gCond {
					yes, err := c18LowerAlts(s.alts[:1], inner)
					if err != nil {
						return nil, err
					}
					// the options in force at the end of the yes branch continue in the no branch
					innerNo := inner
					for _, t := range s.alts[0] {
						if t.k == sSwitch {
							innerNo = innerNo.apply(t.txt)
						}
					}
					no, err := c18LowerAlts(s.alts[1:2], innerNo)
					if err != nil {
						return nil, err
					}
					g = &Node{K: KCondRef, Cap: s.cond, Kids: []*Node{yes, no}}
				} else {
					body, err := c18LowerAlts(s.alts, inner)
					if err != nil {
						return nil, err
					}
					switch s.gk {
					case gCap:
						if e.n {
							g = &Node{K: KGroup, Kids: []*Node{body}}
						} else {
							g = capg(body)
						}
					case gNamed:
						g = &Node{K: KCap, Name: s.name, Kids: []*Node{body}}
					case gNonCap, gOpt:
						g = &Node{K: KGroup, Kids: []*Node{body}}
					case gAhead:
						g = look(true, false, body)
					case gBehind:
						g = look(false, false, body)
					case gAtomic:
						g = atomicg(body)
					}
				}
				if s.q != nil {
					g = rep(g, s.q.min, s.q.max, s.q.lazy)
				}
				parts = append(parts, g)
			}
		}
		// switches of this branch stay in force in the next branch: e is carried over
		br := cat(parts...)
		if br.K == KCat {
			br = &Node{K: KCat, Kids: append([]*Node{}, br.Kids...)}
		}
		branches = append(branches, br)
	}
	if len(branches) == 1 {
		return branches[0], nil
	}
	return alt(branches...), nil
}

type c18TogStat struct {
	cases, points, matched, specPoints, expectErr, illFormed int64
}

// c18CheckSurface checks one surface pattern under one option set O (given in the three
// spellings) against the pushed-down form and the reference matcher.
// c18PySpelling rewrites named groups and named back-references into the Python spellings that RE2 mode adds.
func c18PySpelling(text string) string {
	text = strings.ReplaceAll(text, "(?<g", "(?P<g")
	for _, n := range []string{"g1", "g2", "g3", "g4"} {
		text = strings.ReplaceAll(text, `\k<`+n+`>`, "(?P="+n+")")
	}
	return text
}

func c18CheckSurface(c *Ctx, fam string, alts [][]*sNode, O, extraBase optSet, inputs [][]rune, st *c18TogStat) {
	text := c18SurfaceText(alts)
	if extraBase.has('2') {
		text = c18PySpelling(text)
	}
	ref, err := c18LowerAlts(alts, c18EnvFrom(O))
	if err != nil {
		atomic.AddInt64(&st.illFormed, 1)
		return
	}
	ng := numberCaps(ref, false)
	expectErr := false
	walk(ref, func(x *Node) {
		if (x.K == KRef || x.K == KCondRef) && (x.Cap <= 0 || x.Cap >= ng) {
			expectErr = true
		}
	})
	t3 := c18CompileThree(text, O, extraBase)
	texts, names, bases := t3.texts, t3.names, t3.bases
	pushText := ref.String()
	report := func(leg string, k int, in []rune, start int, detail string) {
		refJSON, _ := json.Marshal(ref)
		v := Violation{Leg: leg, Key: leg + "|" + string(extraBase) + "+" + string(O) + "|" + text, Pattern: text, Options: string(extraBase) + "+" + string(O),
			Detail: detail + " (family " + fam + "; pushed-down form " + q(pushText) + ")",
			Extra: map[string]any{"kind": "toggles", "base": string(extraBase), "O": string(O), "text": text, "spelling": texts[k], "spelling_options": string(bases[k]),
				"pushdown": pushText, "ref": string(refJSON), "ngroups": ng, "expect_error": expectErr}}
		if in != nil {
			v.Input = qr(in)
			v.Detail = fmt.Sprintf("start=%d ", start) + v.Detail
			v.Extra["input_runes"] = in
			v.Extra["start"] = start
		}
		c.Report(v)
	}
	var res [3]*regexp2.Regexp
	atomic.AddInt64(&st.cases, 1)
	for k := 0; k < 3; k++ {
		if texts[k] == "" {
			continue
		}
		re, err := t3.res[k], t3.errs[k]
		if expectErr {
			if err == nil {
				report("toggle-compile", k, nil, 0, names[k]+" compiles although a reference in it designates a group that does not exist under the options in force")
				return
			}
			continue
		}
		if err != nil {
			report("toggle-compile", k, nil, 0, names[k]+" is rejected: "+c18ErrCode(err))
			return
		}
		res[k] = re
	}
	if expectErr {
		atomic.AddInt64(&st.expectErr, 1)
		return
	}
	push, err := compileWith(pushText, extraBase)
	if err != nil {
		report("toggle-compile", 0, nil, 0, "the pushed-down form is rejected: "+c18ErrCode(err))
		return
	}
	gp := c18GroupMap(push)
	if n := len(push.GetGroupNumbers()); n != ng {
		report("toggle-groups", 0, nil, 0, fmt.Sprintf("the pushed-down form has %d groups, the numbering rule gives %d", n, ng))
		return
	}
	for k := 0; k < 3; k++ {
		if res[k] != nil {
			if g := c18GroupMap(res[k]); g != gp {
				report("toggle-groups", k, nil, 0, fmt.Sprintf("group names/numbers: %s gives %s, pushed-down form gives %s", names[k], g, gp))
				return
			}
		}
	}
	useSpec := inC01Fragment(ref) && !extraBase.has('E')
	so := specOpts{rtl: extraBase.has('R'), re2: extraBase.has('2')}
	var points, matched, specPoints int64
	defer func() {
		atomic.AddInt64(&st.points, points)
		atomic.AddInt64(&st.matched, matched)
		atomic.AddInt64(&st.specPoints, specPoints)
	}()
	for _, in := range inputs {
		for start := 0; start <= len(in); start++ {
			points++
			mp, ep := push.FindRunesMatchStartingAt(in, start)
			if mp != nil {
				matched++
			}
			for k := 0; k < 3; k++ {
				if res[k] == nil {
					continue
				}
				mk, ek := res[k].FindRunesMatchStartingAt(in, start)
				if !c18SameMatch(mp, ep, mk, ek) {
					report("toggle-pushdown", k, in, start, fmt.Sprintf("%s gives %s, the pushed-down form gives %s", names[k], fromMatch(mk, ek), fromMatch(mp, ep)))
					return
				}
			}
			if useSpec {
				specPoints++
				want := specFind(ref, in, start, so, ng)
				if !c18MatchIs(mp, ep, &want) {
					report("toggle-spec", 0, in, start, fmt.Sprintf("all spellings and the pushed-down form give %s, the reference matcher gives %s", fromMatch(mp, ep), want))
					return
				}
			}
		}
	}
}

type c18TogJob struct {
	fam    string
	cases  [][][]*sNode
	Os     []optSet
	extra  optSet
	alpha  []rune
	maxL   int
	alphaN string
}

func (c *Ctx) c18RunTogJobs(jobs []c18TogJob) {
	for ji := range jobs {
		jb := &jobs[ji]
		famName := fmt.Sprintf("toggles %s base=%q x options %v, %s L<=%d", jb.fam, string(jb.extra), jb.Os, jb.alphaN, jb.maxL)
		if !c.c18FamWanted(famName) {
			continue
		}
		if c.Expired() {
			c.NotExhaustive("internal deadline reached before " + famName)
			continue
		}
		fs := c.Fam(famName)
		inputs := allStrings(jb.alpha, jb.maxL)
		var st c18TogStat
		done := c.parallel(len(jb.cases), func(i int) {
			for _, O := range jb.Os {
				c18CheckSurface(c, jb.fam, jb.cases[i], O, jb.extra, inputs, &st)
			}
		}, func(i int, r any) {
			t := c18SurfaceText(jb.cases[i])
			c.Report(Violation{Leg: "panic", Key: "panic|" + string(jb.extra) + "|" + t, Pattern: t, Options: string(jb.extra), Detail: panicText(r) + " (toggles " + jb.fam + ")", Extra: map[string]any{"kind": "panic"}})
		})
		fs.Patterns, fs.Evaluations, fs.Nontrivial, fs.Complete = int64(len(jb.cases)), st.points, st.matched, done
		fs.Note = fmt.Sprintf("(pattern,O) cases %d; rejected as the model demands %d; points also compared with the reference matcher %d; skipped ill-formed %d", st.cases, st.expectErr, st.specPoints, st.illFormed)
		if !done {
			c.NotExhaustive("internal deadline reached inside " + famName)
		}
		c.Eval(st.points)
		c.Nontrivial(st.matched)
		c.Outcome("toggles: (pattern,O) cases run", st.cases)
		c.Outcome("toggles: cases every spelling must reject (reference to a group switched off by n)", st.expectErr)
		c.Outcome("toggles: points compared with the reference matcher", st.specPoints)
		if len(jb.cases) > 0 {
			cs := jb.cases[len(jb.cases)*2/3]
			O := jb.Os[len(jb.Os)-1]
			smp := map[string]any{"family": famName, "pattern": c18SurfaceText(cs), "O": string(O)}
			if ref, err := c18LowerAlts(cs, c18EnvFrom(O)); err == nil {
				smp["pushed_down"] = ref.String()
			}
			c.Sample(smp)
		}
	}
}

// ---- the template families

func c18Items() []*sNode {
	return []*sNode{
		sa(lit('a')), sa(anyc()), sa(set(true, 'a')), sa(asrt('^')), sa(asrt('$')),
		sa(rep(lit('a'), 0, -1, false)), sg(gCap, "", sq(sa(lit('a')))), sa(rep(anyc(), 1, -1, true)),
	}
}

// c18TogIMS: nested option groups and in-group switches over i, m, s.
func c18TogIMS(headers []string, thorough bool) map[string][][][]*sNode {
	I := c18Items()
	Xs := []*sNode{sa(lit('a')), sa(anyc())}
	Ws := []*sNode{sa(lit('a')), sa(asrt('$'))}
	if thorough {
		Xs = append(Xs, sa(asrt('^')))
		Ws = append(Ws, sa(anyc()))
	}
	out := map[string][][][]*sNode{}
	add := func(fam string, alts ...[]*sNode) { out[fam] = append(out[fam], alts) }
	for _, h1 := range headers {
		for _, y := range I {
			for _, z := range I {
				for _, x := range I {
					add("T3 (?:X|(?H)Y|Z)W", sq(sg(gNonCap, "", sq(x), sq(ssw(h1), y), sq(z)), Ws[0]))
					add("T3 (?:X|(?H)Y|Z)W", sq(sg(gNonCap, "", sq(x), sq(ssw(h1), y), sq(z)), Ws[1]))
					add("T4 X(?H)Y|Z", sq(x, ssw(h1), y), sq(z))
					add("T6 (?:X(?H)Y){2}Z (?:X(?H)Y)*Z", sq(sg(gNonCap, "", sq(x, ssw(h1), y)).quantified(2, 2, false), z))
					add("T6 (?:X(?H)Y){2}Z (?:X(?H)Y)*Z", sq(sg(gNonCap, "", sq(x, ssw(h1), y)).quantified(0, -1, false), z))
					add("T7 (?=X(?H)Y)Z Z(?<=X(?H)Y)", sq(sg(gAhead, "", sq(x, ssw(h1), y)), z))
					add("T7 (?=X(?H)Y)Z Z(?<=X(?H)Y)", sq(z, sg(gBehind, "", sq(x, ssw(h1), y))))
					add("T9 (?>X(?H)Y)Z (?<g>X(?H)Y)Z", sq(sg(gAtomic, "", sq(x, ssw(h1), y)), z))
					add("T9 (?>X(?H)Y)Z (?<g>X(?H)Y)Z", sq(sg(gNamed, "g", sq(x, ssw(h1), y)), z))
					add("T8 (a)?(?(1)X(?H)Y|Z)W", sq(sg(gCap, "", sq(sa(lit('a')))).quantified(0, 1, false), &sNode{k: sGroup, gk: gCond, cond: 1, alts: [][]*sNode{sq(x, ssw(h1), y), sq(z)}}, Ws[1]))
				}
			}
		}
		for _, h2 := range headers {
			for _, y := range I {
				for _, z := range I {
					for _, x := range I {
						add("T1 (?H1:X(?H2:Y)Z)", sq(sg(gOpt, h1, sq(x, sg(gOpt, h2, sq(y)), z))))
					}
					for _, x := range Xs {
						add("T4 X(?H1)Y|(?H2)Z", sq(x, ssw(h1), y), sq(ssw(h2), z))
						for _, w := range Ws {
							add("T2 (X(?H1)Y(?H2)Z)W", sq(sg(gCap, "", sq(x, ssw(h1), y, ssw(h2), z)), w))
							add("T5 (?H1:X(Y(?H2)Z)W)", sq(sg(gOpt, h1, sq(x, sg(gCap, "", sq(y, ssw(h2), z)), w))))
							add("T10 X(?H1)(Y(?H2)Z)W", sq(x, ssw(h1), sg(gCap, "", sq(y, ssw(h2), z)), w))
						}
					}
				}
			}
		}
	}
	return out
}

// c18TogN: ExplicitCapture switched on and off between groups; tails reference the groups.
func c18TogN(headers []string) map[string][][][]*sNode {
	letters := []rune{'a', 'b', 'a', 'b'}
	mk := func(kind, pos int) *sNode {
		body := sq(sa(lit(letters[pos])))
		switch kind {
		case 0:
			return sg(gCap, "", body)
		case 1:
			return sg(gNamed, fmt.Sprintf("g%d", pos+1), body)
		}
		return sg(gNonCap, "", body)
	}
	tails := []*sNode{nil, sa(&Node{K: KRef, Cap: 1}), sa(&Node{K: KRef, Cap: 2}), sa(&Node{K: KRef, Cap: 3}), sa(&Node{K: KRef, Name: "g2"})}
	out := map[string][][][]*sNode{}
	add := func(fam string, tail *sNode, seq []*sNode) {
		if tail != nil {
			seq = append(append([]*sNode{}, seq...), tail)
		}
		out[fam] = append(out[fam], [][]*sNode{seq})
	}
	for k1 := 0; k1 < 3; k1++ {
		for k2 := 0; k2 < 3; k2++ {
			for k3 := 0; k3 < 3; k3++ {
				g1, g2, g3 := mk(k1, 0), mk(k2, 1), mk(k3, 2)
				for _, t := range tails {
					for _, h1 := range headers {
						add("N2 (G1(?H)G2)G3 tail", t, sq(sg(gCap, "", sq(g1, ssw(h1), g2)), g3))
						add("N4 (?:G1|(?H)G2)G3 tail", t, sq(sg(gNonCap, "", sq(g1), sq(ssw(h1), g2)), g3))
						add("N5 (?:G1(?H:G2))G3 tail", t, sq(sg(gNonCap, "", sq(g1, sg(gOpt, h1, sq(g2)))), g3))
						if k1 == 0 && k2 == 1 {
							// a named group and a back-reference to it inside the scope of the switch, a group right after
							// (under RE2 the pair is spelled (?P<g2> ) and (?P=g2), see c18PySpelling)
							add("N7 (?H:G2 \\k<g2>)G3 tail", t, sq(sg(gOpt, h1, sq(g2, sa(&Node{K: KRef, Name: "g2"}))), g3))
							add("N7 ((?H)G2 \\k<g2>)G3 tail", t, sq(sg(gCap, "", sq(ssw(h1), g2, sa(&Node{K: KRef, Name: "g2"}))), g3))
						}
						if k1 == 0 {
							// an expression conditional inside the scope of the switch, a plain group right after the scope
							ce := &sNode{k: sGroup, gk: gCondExp, alts: [][]*sNode{sq(sa(anyc())), sq(g2), sq(sa(lit('b')))}}
							add("N6 (?H:(?(.)G2|b))G3 tail", t, sq(sg(gOpt, h1, sq(ce)), g3))
							add("N6 ((?H)(?(.)G2|b))G3 tail", t, sq(sg(gCap, "", sq(ssw(h1), ce)), g3))
							add("N6 (?H:G1(?(.)G2|b))G3 tail", t, sq(sg(gOpt, h1, sq(g1, ce)), g3))
						}
						for _, h2 := range headers {
							add("N1 G1(?H1)G2(?H2)G3 tail", t, sq(g1, ssw(h1), g2, ssw(h2), g3))
							add("N3 (?H1:G1(?H2:G2)G3) tail", t, sq(sg(gOpt, h1, sq(g1, sg(gOpt, h2, sq(g2)), g3))))
						}
					}
				}
			}
		}
	}
	return out
}

// c18TogMix: switches mixing all five letters, with a blank after every item (ignored where x is on,
// a literal blank elsewhere).
func c18TogMix(headers []string) [][][]*sNode {
	I := []*sNode{sa(lit('a')), sg(gCap, "", sq(sa(lit('a'))))}
	Ws := []*sNode{sa(lit('a')), sa(asrt('$'))}
	var out [][][]*sNode
	b := sf(" ")
	for _, h1 := range headers {
		for _, h2 := range headers {
			for _, x := range I {
				for _, y := range I {
					for _, z := range I {
						for _, w := range Ws {
							out = append(out, [][]*sNode{sq(sg(gCap, "", sq(x, b, ssw(h1), y, b, ssw(h2), z, b)), w)})
							out = append(out, [][]*sNode{sq(sg(gOpt, h1, sq(x, b, sg(gOpt, h2, sq(y, b)), z, b)), w, sa(&Node{K: KRef, Cap: 1}))})
						}
					}
				}
			}
		}
	}
	return out
}

// c18XSeqs: every surface sequence of total size <= maxSize over atoms, blank/comment fillers,
// (?x) / (?-x) switches and four kinds of groups (size of a group = 1 + size of its body).
func c18XSeqs(maxSize int) [][][]*sNode {
	base := []*sNode{sa(lit('a')), sa(lit('b')), sf(" "), sf("#\n"), sf("(?#k)"), sf("#(\n"), sf("#)\n"), ssw("x"), ssw("-x")}
	seqs := map[int][][]*sNode{0: {nil}}
	elems := map[int][]*sNode{}
	for n := 1; n <= maxSize; n++ {
		var el []*sNode
		if n == 1 {
			el = append(el, base...)
		}
		for _, body := range seqs[n-1] {
			el = append(el, sg(gCap, "", body), sg(gNonCap, "", body), sg(gOpt, "x", body), sg(gOpt, "-x", body))
		}
		elems[n] = el
		var sn [][]*sNode
		for first := 1; first <= n; first++ {
			for _, e := range elems[first] {
				for _, rest := range seqs[n-first] {
					s := make([]*sNode, 0, 1+len(rest))
					s = append(append(s, e), rest...)
					sn = append(sn, s)
				}
			}
		}
		seqs[n] = sn
	}
	var out [][][]*sNode
	for n := 1; n <= maxSize; n++ {
		for _, s := range seqs[n] {
			out = append(out, [][]*sNode{s})
		}
	}
	return out
}

// ---------------------------------------------------------------------------------------------
// TOK-x: explicit list of the lexical corner cases of IgnorePatternWhitespace. Each case pairs a
// text meant to be read under x with the text that means the same without x.

type c18XCase struct {
	xText, bare string
	alpha       string
	subjects    []string
}

var c18XCases = []c18XCase{
	{"a *", "a*", "ab ", nil},
	{"a * ?", "a*?", "ab ", nil},
	{"a +b", "a+b", "ab ", nil},
	{"a ? b", "a?b", "ab ", nil},
	{"a {2}", "a{2}", "ab ", nil},
	{"a{2} ?", "a{2}?", "ab ", nil},
	{"a {1,2} ? a", "a{1,2}?a", "ab ", nil},
	{"a{1, 2}", `a\{1,2}`, "a{1", []string{"a{1,2}", "a{1, 2}", "aa", "a{1,2"}},
	{"a{1 ,2}", `a\{1,2}`, "a{1", []string{"a{1,2}", "a{1 ,2}", "aa"}},
	{"a{ 2}", `a\{2}`, "a{2", []string{"a{2}", "a{ 2}", "aa"}},
	{"a{2 }", `a\{2}`, "a{2", []string{"a{2}", "a{2 }", "aa"}},
	{"a { 2 }", `a\{2}`, "a{2", []string{"a{2}", "a { 2 }", "aa"}},
	{"a | b", "a|b", "ab ", nil},
	{"( a ) b", "(a)b", "ab ", nil},
	{"(?: a | b ) +", "(?:a|b)+", "ab ", nil},
	{"(?<n> a ) \\k<n>", `(?<n>a)\k<n>`, "ab ", nil},
	{"( a ) \\1", `(a)\1`, "ab ", nil},
	{"(?= a ) .", "(?=a).", "ab ", nil},
	{"(?<! a ) b", "(?<!a)b", "ab ", nil},
	{"(?> a * ) a", "(?>a*)a", "ab ", nil},
	{"( a ) ? (?(1) b | a )", "(a)?(?(1)b|a)", "ab ", nil},
	{"[a b]", `[a\ b]`, "ab c", nil},
	{"[ ]", `[\ ]`, "a b", nil},
	{"[a#b] c", `[a\#b]c`, "a#bc", nil},
	{"[^ ] a", `[^\ ]a`, "a b", nil},
	{"[a-[ ]] b", `[a-[\ ]]b`, "a b", nil},
	{`a\ b`, `a\ b`, "ab ", nil},
	{`a \  b`, `a\ b`, "ab ", nil},
	{`a\#b`, `a\#b`, "ab#", nil},
	{`a [#] b`, `a\#b`, "ab#", nil},
	{"a#*\nb", "ab", "ab#*", nil},
	{"a # b\nb", "ab", "ab# ", nil},
	{"a#b", "a", "ab#", nil},
	{"a #)(\n b", "ab", "ab#", nil},
	{"( a ) #(\n \\1", `(a)\1`, "ab#", nil},
	{"( a ) #)\n \\1", `(a)\1`, "ab#", nil},
	{"a # (?-x)\n b", "ab", "ab ", nil},
	{"a (?#c) b", "ab", "ab ", nil},
	{"a (?#c #) b", "ab", "ab #", nil},
	{"a(?#c)*", "a*", "ab ", nil},
	{"a (?#c) * (?#d) ?", "a*?", "ab ", nil},
	{"a\tb\nc\rd\fe\vf", "abcdef", "abc", []string{"abcdef", "a\tb\nc\rd\fe\vf"}},
	{"a\u00a0b", "a\u00a0b", "ab\u00a0", nil},
	{"a\u0085b", "a\u0085b", "ab\u0085", nil},
	{"^ a $", "^a$", "ab \n", nil},
	{"\\A a \\z", `\Aa\z`, "ab ", nil},
	{"a \\b b", `a\bb`, "ab ", nil},
	{". \\n .", `.\n.`, "a \n", nil},
	{"\\x20 a", `\x20a`, "a b", nil},
	{"\\u0020 \\# a", ` \#a`, "a #", nil},
	{"a (?-x: b ) c", `a(?:\ b\ )c`, "abc ", []string{"a b c", "abc"}},
	{"a (?-x) b # c", `a\ b\ \#\ c`, "abc #", []string{"a b # c", "ab", " b # c"}},
	{"(?-x: # )", `(?:\ \#\ )`, "a #", nil},
	{"(?-x:#\n)", "(?:\\#\\n)", "a#\n", nil},
	{"( (?-x) ) a", `(\ )a`, "a b", nil},
	{"( (?-x) a | b ) c", `(\ a\ |\ b\ )c`, "abc ", []string{" a c", " b c", " a  c"}},
}

// c18XOffCases: texts read with x off in which (?x) is switched on part of the way.
var c18XOffCases = []c18XCase{
	{"a (?x) b c(?-x) d", `a\ bc\ d`, "abcd ", []string{"a bc d", "abcd", "a b c d"}},
	{"a (?x: b # (\n ) c", `a\ (?:b)\ c`, "abc ", []string{"a b c", "abc"}},
	{"a#(?x)#(\nb", `a\#b`, "ab#", nil},
	{"(a #\n)(?x) #(\n \\1", `(a\ \#\n)\1`, "a #\n", []string{"a #\na #\n"}},
	{"( (?x) a # )\n ) b", `(\ a)\ b`, "ab ", nil},
	{"(?: a|(?x) b | c ) d", `(?:\ a|b|c)\ d`, "abcd ", []string{" a d", "b d", "c d"}},
	{"(?x) a (?-x) b", `a\ b`, "ab ", nil},
	{"(?x: a (?-x: b ) c ) d", `(?:a(?:\ b\ )c)\ d`, "abcd ", []string{"a b c d"}},
	{"a(?#x ) b", `a\ b`, "ab ", nil},
	{"a(?#\n)#", `a\#`, "a#\n", nil},
}

func c18XInputs(cs c18XCase, maxL int) [][]rune {
	ins := allStrings([]rune(cs.alpha), maxL)
	for _, s := range append([]string{cs.xText, cs.bare, strings.ReplaceAll(cs.xText, " ", "")}, cs.subjects...) {
		ins = append(ins, []rune(s))
	}
	return ins
}

// c18CheckX: the spellings of xText under O+x (O from Os, never containing x) against bare under O.
func c18CheckX(c *Ctx, fam string, cs c18XCase, withX bool, Os []optSet, maxL int, st *c18TogStat) {
	inputs := c18XInputs(cs, maxL)
	for _, O0 := range Os {
		O := O0
		if withX {
			O += "x"
		}
		atomic.AddInt64(&st.cases, 1)
		t3 := c18CompileThree(cs.xText, O, "")
		texts, names, bases := t3.texts, t3.names, t3.bases
		report := func(leg string, k int, in []rune, start int, detail string) {
			v := Violation{Leg: leg, Key: leg + "|" + string(O) + "|" + cs.xText, Pattern: cs.xText, Options: string(O),
				Detail: detail + " (family " + fam + "; equivalent text without x: " + q(cs.bare) + ")",
				Extra:  map[string]any{"kind": "xcase", "O": string(O), "bare": cs.bare, "bare_options": string(O0), "spelling": texts[k], "spelling_options": string(bases[k])}}
			if in != nil {
				v.Input = qr(in)
				v.Detail = fmt.Sprintf("start=%d ", start) + v.Detail
				v.Extra["input_runes"] = in
				v.Extra["start"] = start
			}
			c.Report(v)
		}
		ref, err := compileWith(cs.bare, O0)
		if err != nil {
			// the x-free text is rejected under O (a reference to a group that n switches off):
			// then every spelling of the x text must be rejected as well
			for k := 0; k < 3; k++ {
				if texts[k] != "" && t3.errs[k] == nil {
					report("x-compile", k, nil, 0, names[k]+" compiles although the x-free text is rejected under "+string(O0)+": "+c18ErrCode(err))
				}
			}
			atomic.AddInt64(&st.expectErr, 1)
			continue
		}
		var res [3]*regexp2.Regexp
		ok := true
		for k := 0; k < 3 && ok; k++ {
			if texts[k] == "" {
				continue
			}
			res[k], err = t3.res[k], t3.errs[k]
			if err != nil {
				report("x-compile", k, nil, 0, names[k]+" is rejected: "+c18ErrCode(err))
				ok = false
			} else if g, gr := c18GroupMap(res[k]), c18GroupMap(ref); g != gr {
				report("x-groups", k, nil, 0, fmt.Sprintf("group names/numbers: %s gives %s, the x-free text gives %s", names[k], g, gr))
				ok = false
			}
		}
		if !ok {
			continue
		}
		var points, matched int64
	scan:
		for _, in := range inputs {
			for start := 0; start <= len(in); start++ {
				points++
				mr, er := ref.FindRunesMatchStartingAt(in, start)
				if mr != nil {
					matched++
				}
				for k := 0; k < 3; k++ {
					if res[k] == nil {
						continue
					}
					mk, ek := res[k].FindRunesMatchStartingAt(in, start)
					if !c18SameMatch(mr, er, mk, ek) {
						report("x-match", k, in, start, fmt.Sprintf("%s gives %s, the x-free text gives %s", names[k], fromMatch(mk, ek), fromMatch(mr, er)))
						break scan
					}
				}
			}
		}
		atomic.AddInt64(&st.points, points)
		atomic.AddInt64(&st.matched, matched)
	}
}

func (c *Ctx) c18RunXCases(fam string, cases []c18XCase, withX bool, Os []optSet, maxL int) {
	famName := fmt.Sprintf("TOK-x %s (%d explicit texts) x options %v, per-case alphabet L<=%d + listed subjects", fam, len(cases), Os, maxL)
	if !c.c18FamWanted(famName) {
		return
	}
	fs := c.Fam(famName)
	var st c18TogStat
	done := c.parallel(len(cases), func(i int) { c18CheckX(c, fam, cases[i], withX, Os, maxL, &st) }, func(i int, r any) {
		c.Report(Violation{Leg: "panic", Key: "panic|x|" + cases[i].xText, Pattern: cases[i].xText, Options: "x", Detail: panicText(r) + " (TOK-x)", Extra: map[string]any{"kind": "panic"}})
	})
	fs.Patterns, fs.Evaluations, fs.Nontrivial, fs.Complete = int64(len(cases)), st.points, st.matched, done
	c.Eval(st.points)
	c.Nontrivial(st.matched)
	c.Outcome("TOK-x: (text,O) cases run", st.cases)
	c.Sample(map[string]any{"family": famName, "pattern": cases[len(cases)/2].xText, "x_free_equivalent": cases[len(cases)/2].bare})
}

// ---------------------------------------------------------------------------------------------

func runC18(c *Ctx) {
	c.Level = "exploration"
	thorough := c.Tier == "thorough"
	if thorough {
		c.SetBudget(30 * time.Minute)
	} else {
		c.SetBudget(240 * time.Second)
	}
	c.Rule = "Leg spellings: every pattern of the listed families x every subset O of {i,m,s,n,x} (32) x base options {none, RightToLeft, RE2, ECMAScript} x every input up to the bound over {a,A,b,\\n} (second profile {é,É,日,\\n}) x every start offset: Compile(p,B+O), Compile(\"(?O)\"+p,B) and Compile(\"(?O:\"+p+\")\",B) agree on compiling at all, on GetGroupNames/GetGroupNumbers, and on match index/length and the capture list of every group; with x in O all three use the same blank-and-comment-decorated text. " +
		"Leg toggles: patterns assembled from menus with nested option groups (?H1:X(?H2:Y)Z), in-group switches (X(?H1)Y(?H2)Z)W (also across '|', inside quantified groups, lookarounds and conditionals), ExplicitCapture switched between groups with back-references behind them, and x switched with blank/comment fillers, in all three spellings of every listed O: each must equal (a) the engine on the pushed-down form, in which every leaf carries its own (?on-off:leaf) group and groups that n switches off are (?: ), and (b) the reference matcher of spec.go run on that tree; where the numbering rule says a referenced group does not exist, all spellings must be rejected. " +
		"Leg TOK-x: explicit lexical corner cases of x (blank before a quantifier and before the lazy mark, blanks inside {m,n} make it literal, blanks and # inside classes are literal, escaped blank, # comments to end of line also when they contain parentheses or option groups, (?#...) comments with and without x, non-ASCII blanks are literal, (?-x) regions) against the equivalent x-free text. " +
		"Non-trivial = points where the result under O differs from the result of the option-free compile (spellings) / where a match exists (toggles, TOK-x)."
	c.Assume("the scoping rule modelled for in-group switches is the documented .NET one: a switch lasts to the end of the enclosing group, across '|' (and from the yes into the no branch of a conditional); a group restores the options in force at its opening parenthesis")
	c.Assume("a text harvested from the corpus that Compile(p,O) rejects is not a pattern under O and is skipped (counted); patterns printed from ASTs must be rejected by all spellings or by none")
	c.Assume("no inline option among i,m,s,n,x is documented as illegal under RightToLeft, RE2 or ECMAScript (the parser accepts all of them in every mode), so all 32 subsets are run under every base")
	all32 := subsets("imsnx")
	profA := profile{name: "{a,A,b,\\n}", input: []rune{'a', 'A', 'b', '\n'}}
	profB := profile{name: "{é,É,日,\\n}", m: map[rune]rune{'a': 'é', 'A': 'É', 'b': '日'}, input: []rune{'a', 'A', 'b', '\n'}}

	// ---- TOK-x
	xOs := []optSet{"", "i", "imsn"}
	c.c18RunXCases("read under x", c18XCases, true, xOs, 4)
	c.c18RunXCases("read with x off, switched on inside", c18XOffCases, false, xOs, 4)

	// ---- toggles
	hIMS := []string{"i", "m", "s", "-i", "-m", "-s", "im-s", "s-im"}
	hN := []string{"n", "-n", "in", "n-i"}
	hMix := []string{"x", "-x", "ix", "n-x", "imsnx", "-imsnx"}
	alphaA := []rune{'a', 'A', 'b', '\n'}
	var tj []c18TogJob
	addIMS := func(fams map[string][][][]*sNode, Os []optSet, extra optSet, L int) {
		for _, fam := range sortedKeys(fams) {
			tj = append(tj, c18TogJob{fam: fam, cases: fams[fam], Os: Os, extra: extra, alpha: alphaA, alphaN: "{a,A,b,\\n}", maxL: L})
		}
	}
	ims := c18TogIMS(hIMS, false)
	tn := c18TogN(hN)
	for _, fam := range sortedKeys(tn) {
		tj = append(tj, c18TogJob{fam: fam, cases: tn[fam], Os: []optSet{"", "n", "in"}, alpha: []rune{'a', 'b', 'A'}, alphaN: "{a,b,A}", maxL: 4})
	}
	for _, fam := range sortedKeys(tn) {
		if strings.HasPrefix(fam, "N7") || strings.HasPrefix(fam, "N3") {
			tj = append(tj, c18TogJob{fam: fam + " [Python spellings]", cases: tn[fam], Os: []optSet{"", "n"}, extra: "2", alpha: []rune{'a', 'b', 'A'}, alphaN: "{a,b,A}", maxL: 4})
		}
	}
	mixFam := "MIX (X (?H1)Y (?H2)Z )W, (?H1:X (?H2:Y )Z )W\\1"
	tj = append(tj, c18TogJob{fam: mixFam, cases: c18TogMix(hMix), Os: []optSet{"", "x", "imsnx"}, alpha: []rune{'a', 'A', ' '}, alphaN: "{a,A,blank}", maxL: 5})
	xAlpha := []rune{'a', 'b', ' ', '#', '\n'}
	tj = append(tj, c18TogJob{fam: "XSEQ size<=3", cases: c18XSeqs(3), Os: []optSet{"", "x"}, alpha: xAlpha, alphaN: "{a,b,blank,#,\\n}", maxL: 3})
	addIMS(ims, []optSet{"", "ims"}, "", 3)
	plusUpper := c18TogIMS([]string{"-i+m", "I", "S-M", "i+m-s"}, false)
	for _, fam := range []string{"T1 (?H1:X(?H2:Y)Z)", "T2 (X(?H1)Y(?H2)Z)W"} {
		tj = append(tj, c18TogJob{fam: fam + " ['+' and upper-case headers]", cases: plusUpper[fam], Os: []optSet{"", "ims"}, alpha: alphaA, alphaN: "{a,A,b,\\n}", maxL: 3})
	}
	c.c18RunTogJobs(tj)

	// ---- spellings
	coreS3 := coreFamily("CORE-S", grammarCoreS(), 3)
	coreS4 := coreFamily("CORE-S", grammarCoreS(), 4)
	anch3 := anchFamily(3, false)
	seq1 := seqFamily(1, true)
	seq2bare := seqFamily(2, false)
	corpus := corpusPatterns()
	namedG := &grammar{leaves: append(coreLeaves("^$G", true), &Node{K: KRef, Name: "n"}), quants: quantsAll[:6], c01: true, caps: true, named: true, atomics: true, condRef: true}
	var sj []c18SpellJob
	add := func(fam string, pats []Pat, base optSet, pr profile, L int) {
		sj = append(sj, c18SpellJob{fam: fam, pats: pats, base: base, Os: all32, prof: pr, maxL: L})
	}
	bases := []optSet{"R", "2", "E"}
	for _, b := range bases {
		add("CORE-S<=3", coreS3, b, profA, 3)
		add("ANCH<=3", anch3, b, profA, 3)
		add("SEQ k<=1 anchored", seq1, b, profA, 3)
	}
	add("CORE-S<=3", coreS3, "", profB, 3)
	add("ANCH<=3", anch3, "", profB, 3)
	add("NAMED<=3", coreFamily("NAMED", namedG, 3), "", profA, 3)
	add("CORPUS", corpus, "", profCorpus, 2)
	add("SEQ k<=2", seq2bare, "", profA, 3)
	add("ANCH<=4 (fragment)", anchFamily(4, true), "", profA, 3)
	if thorough {
		add("CORE-S<=4", coreS4, "", profA, 3)
	} else {
		add("CORE-S<=4", coreS4, "", profA, 2)
	}
	c.c18RunSpellJobs(sj)
	if !thorough {
		return
	}

	// ---- thorough: the quick programme above, then deeper and wider, cheapest first
	anch4 := anchFamily(4, false)
	sj = nil
	add("NAMED<=4", coreFamily("NAMED", namedG, 4), "", profA, 3)
	add("CORPUS", corpus, "", profCorpus, 3)
	for _, b := range bases {
		add("CORPUS", corpus, b, profCorpus, 2)
		add("SEQ k<=2", seq2bare, b, profA, 3)
		add("ANCH<=4", anch4, b, profA, 3)
	}
	c.c18RunSpellJobs(sj)

	tj = nil
	tj = append(tj, c18TogJob{fam: "XSEQ size<=4", cases: c18XSeqs(4), Os: []optSet{"", "x"}, alpha: xAlpha, alphaN: "{a,b,blank,#,\\n}", maxL: 3})
	tj = append(tj, c18TogJob{fam: "XSEQ size<=3", cases: c18XSeqs(3), Os: []optSet{"", "x", "ix"}, alpha: xAlpha, alphaN: "{a,b,blank,#,\\n}", maxL: 4})
	for _, fam := range sortedKeys(tn) {
		tj = append(tj, c18TogJob{fam: fam, cases: tn[fam], Os: []optSet{"", "n"}, extra: "R", alpha: []rune{'a', 'b', 'A'}, alphaN: "{a,b,A}", maxL: 4})
	}
	addIMS(ims, []optSet{"i", "m", "s"}, "", 3)
	for _, b := range bases {
		addIMS(ims, []optSet{"", "ims"}, b, 3)
	}
	wide := c18TogIMS([]string{"i", "m", "s", "-i", "-m", "-s", "im", "i-s", "ms-i", "-ims", "ims", "s-m"}, true)
	for _, fam := range sortedKeys(wide) {
		tj = append(tj, c18TogJob{fam: fam + " [12 headers, wider X/W menus]", cases: wide[fam], Os: []optSet{"", "ims"}, alpha: alphaA, alphaN: "{a,A,b,\\n}", maxL: 3})
	}
	c.c18RunTogJobs(tj)

	sj = nil
	for _, b := range bases {
		add("CORE-S<=4", coreS4, b, profA, 3)
	}
	add("CORE-S<=4", coreS4, "", profB, 3)
	add("ANCH<=4", anch4, "", profB, 3)
	add("CORE-S<=3", coreS3, "", profA, 5)
	add("SEQ k<=2 anchored", seqFamily(2, true), "", profA, 4)
	add("ANCH<=4", anch4, "", profA, 4)
	add("CORE-S<=4", coreS4, "", profA, 4)
	c.c18RunSpellJobs(sj)

	tj = nil
	addIMS(ims, []optSet{"", "ims"}, "", 4)
	c.c18RunTogJobs(tj)

	sj = nil
	add("CORE<=4 (full grammar)", coreFamily("CORE", grammarCore(), 4), "", profA, 3)
	c.c18RunSpellJobs(sj)
}

// c18FamWanted: development aid. VERIF_C18_ONLY=substring restricts the run to the families whose
// name contains the substring; such a run is marked non-exhaustive.
func (c *Ctx) c18FamWanted(name string) bool {
	f := os.Getenv("VERIF_C18_ONLY")
	if f == "" || strings.Contains(name, f) {
		return true
	}
	c.NotExhaustive("family filter VERIF_C18_ONLY skipped " + name)
	return false
}

func sortedKeys[V any](m map[string]V) []string {
	var ks []string
	for k := range m {
		ks = append(ks, k)
	}
	sort.Strings(ks)
	return ks
}

func c18ScratchCtx() *Ctx {
	c := newCtx("C18", "replay")
	c.known = map[string]knownFinding{}
	return c
}

func c18Str(m map[string]any, k string) string {
	s, _ := m[k].(string)
	return s
}

// replayC18 re-executes one recorded case without the enumerators.
func replayC18(v Violation) (still bool, detail string) {
	defer func() {
		if r := recover(); r != nil {
			still, detail = true, panicText(r)
		}
	}()
	in, start := replayInput(v)
	var inputs [][]rune
	if _, ok := v.Extra["input_runes"]; ok {
		inputs = [][]rune{in}
	}
	sc := c18ScratchCtx()
	switch c18Str(v.Extra, "kind") {
	case "spellings":
		src := c18Str(v.Extra, "src")
		wf, _ := v.Extra["well_formed"].(bool)
		var st c18SpellStat
		c18Spellings(sc, "replay", src, src, wf, optSet(c18Str(v.Extra, "base")), []optSet{optSet(c18Str(v.Extra, "O"))}, inputs, &st)
	case "xcase":
		O := optSet(c18Str(v.Extra, "O"))
		cs := c18XCase{xText: v.Pattern, bare: c18Str(v.Extra, "bare"), subjects: []string{string(in)}}
		var st c18TogStat
		c18CheckX(sc, "replay", cs, O.has('x'), []optSet{optSet(c18Str(v.Extra, "bare_options"))}, 0, &st)
	case "toggles":
		return c18ReplayToggle(v, in, start, inputs != nil)
	case "panic":
		// re-run every spelling of every option subset on a small input set
		var st c18SpellStat
		c18Spellings(sc, "replay", v.Pattern, v.Pattern, false, optSet(v.Options), subsets("imsnx"), allStrings(patternAlphabet(v.Pattern), 2), &st)
		return false, "no panic when re-running every spelling of every option subset on inputs of length <= 2"
	default:
		return false, "unknown artefact kind"
	}
	sc.mu.Lock()
	defer sc.mu.Unlock()
	if len(sc.violations) > 0 {
		return true, sc.violations[0].Leg + ": " + sc.violations[0].Detail
	}
	return false, "the three spellings agree"
}

func c18ReplayToggle(v Violation, in []rune, start int, havePoint bool) (bool, string) {
	O, base := optSet(c18Str(v.Extra, "O")), optSet(c18Str(v.Extra, "base"))
	text, pushText := c18Str(v.Extra, "text"), c18Str(v.Extra, "pushdown")
	expectErr, _ := v.Extra["expect_error"].(bool)
	t3 := c18CompileThree(text, O, base)
	for k := 0; k < 3; k++ {
		if t3.texts[k] == "" {
			continue
		}
		if expectErr && t3.errs[k] == nil {
			return true, t3.names[k] + " compiles although a reference designates a group that does not exist"
		}
		if !expectErr && t3.errs[k] != nil {
			return true, t3.names[k] + " is rejected: " + t3.errs[k].Error()
		}
	}
	if expectErr {
		return false, "all spellings are rejected, as the model demands"
	}
	push, err := compileWith(pushText, base)
	if err != nil {
		return true, "the pushed-down form is rejected: " + err.Error()
	}
	for k := 0; k < 3; k++ {
		if t3.res[k] != nil && c18GroupMap(t3.res[k]) != c18GroupMap(push) {
			return true, fmt.Sprintf("group names/numbers: %s gives %s, pushed-down form gives %s", t3.names[k], c18GroupMap(t3.res[k]), c18GroupMap(push))
		}
	}
	if !havePoint {
		return false, "all spellings compile and have the group map of the pushed-down form"
	}
	mp, ep := push.FindRunesMatchStartingAt(in, start)
	for k := 0; k < 3; k++ {
		if t3.res[k] == nil {
			continue
		}
		mk, ek := t3.res[k].FindRunesMatchStartingAt(in, start)
		if !c18SameMatch(mp, ep, mk, ek) {
			return true, fmt.Sprintf("%s gives %s, the pushed-down form gives %s", t3.names[k], fromMatch(mk, ek), fromMatch(mp, ep))
		}
	}
	var ref Node
	if err := json.Unmarshal([]byte(c18Str(v.Extra, "ref")), &ref); err == nil && inC01Fragment(&ref) && !base.has('E') {
		ng := 0
		if f, ok := v.Extra["ngroups"].(float64); ok {
			ng = int(f)
		}
		want := specFind(&ref, in, start, specOpts{rtl: base.has('R'), re2: base.has('2')}, ng)
		if !c18MatchIs(mp, ep, &want) {
			return true, fmt.Sprintf("all spellings and the pushed-down form give %s, the reference matcher gives %s", fromMatch(mp, ep), want)
		}
	}
	return false, "all spellings, the pushed-down form and the reference matcher agree: " + fromMatch(mp, ep).String()
}
