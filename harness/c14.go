//go:build sched

package main

// C14: timeouts fire, only when due, and the clock cleans up — explored on the real clock code
// (makeDeadline, extendClock, runClock, stopClock, Runner.startTimeoutWatch/CheckTimeout and the
// real interpreter) under the controlled scheduler with virtual time.

import (
	"fmt"
	"math"
	"strings"
	"time"

	regexp2 "github.com/dlclark/regexp2/v2"
	"github.com/dlclark/regexp2/v2/verifshim/vsched"
)

func init() {
	register("C14", func(c *Ctx) {
		c.Level = "model_checking"
		c.Rule = "histories of one client (every sequence of up to 3 (quick) / 4 (thorough) operations over {L(d1), Q(d1), L(d2), Q(d2), I(short), I(long), S}: L = timed catastrophic match, Q = timed match that finishes at once, I = idle, S = StopTimeoutClock) and pairs of concurrent clients whose k-th timed calls are phase-aligned (3 phases quick, 9 thorough), on the real clock code under a controlled scheduler with virtual time (every atomic load costs c); plus free-mode groups, in which op Z makes a client's operations cost nothing so that the calls after it interleave in every order up to the preemption bound, with the deviation 'hold' (the running free thread is descheduled until the next timer event): stale+free (the clock has run out, two clients come back at the same instant), exit+free (a client comes back around the instant the clock goroutine decides to exit), together+free. Every interleaving up to the preemption bound and every deviation (timer jitter, hold) up to the deviation bound is executed. Oracle per execution (exact, virtual time): L returns a timeout error with elapsed in [d - J - 2 ticks, d + 3P + c + J + 2 ticks]; Q never reports a timeout before d - J - 2 ticks have passed since the call; at quiescence the clock goroutine has returned and is not marked running; no deadlock. A scenario is non-trivial when its executions show more than one distinct observable outcome."
		c.Assume("scheduling points: every sync / atomic / time operation of package regexp2 (import-rewritten through a build overlay); plain memory accesses between them are covered by the free-running race-detector leg of C11")
		c.Assume("StopTimeoutClock is explored between calls of the same client and concurrently with other clients only while they are idle (documented as test-only)")
		c.Assume("virtual cost of one timeout check c = 250us, clock period P = 4ms (also 1ms in the thorough tier), jitter J = 500us, d1 = 16ms, d2 = 40ms")
		runSched(c, "C14")
	})
	replayers["C14"] = replaySched("C14")
	schedScenarios["C14"] = c14Scenarios
}

const (
	c14C    = 250 * time.Microsecond
	c14Tick = 1 << 20
)

type c14op struct {
	kind byte // L Q I S
	d    time.Duration
}

func (o c14op) String() string {
	if o.kind == 'S' {
		return "S"
	}
	if o.kind == 'Z' {
		return "Z"
	}
	if o.kind == 'N' {
		return fmt.Sprintf("Find;idle;FindNext(%v)", o.d)
	}
	if o.kind == 'M' {
		return fmt.Sprintf("L-adjacent-loops(%v)", o.d)
	}
	if o.kind == 'F' {
		return fmt.Sprintf("ReplaceFunc-with-idle(%v)", o.d)
	}
	return fmt.Sprintf("%c(%v)", o.kind, o.d)
}

type c14obs struct {
	op       c14op
	t0, t1   int64
	timedOut bool
	otherErr string
}

var c14long = strings.Repeat("a", 22) + "b"

func c14note(op c14op, t0, t1 int64, err error) c14obs {
	ob := c14obs{op: op, t0: t0, t1: t1}
	if err != nil {
		if strings.Contains(err.Error(), "match timeout") {
			ob.timedOut = true
		} else {
			ob.otherErr = err.Error()
		}
	}
	return ob
}

func c14runOp(o c14op, out *[]c14obs) {
	s := vsched.S
	switch o.kind {
	case 'I':
		vsched.Work(int64(o.d))
	case 'S':
		regexp2.StopTimeoutClock()
	case 'Z':
		// from here on this client's atomic loads cost no virtual time: every shim operation is a pure
		// scheduling point, so the calls that follow interleave freely (a thread may be held up for any
		// length of time between two of its operations) instead of in the order their costs dictate
		vsched.Cur().LoadCost = 0
		vsched.Cur().Free = true
	case 'N':
		// continuation scan: a first match, an idle period longer than the timeout, then FindNextMatch on the
		// same Regexp (served by the pooled runner of the first scan); each call on its own finishes at once
		re := regexp2.MustCompile(`ab`)
		re.MatchTimeout = o.d
		t0 := s.Now
		m, err := re.FindStringMatch("ab ab")
		*out = append(*out, c14note(c14op{'Q', o.d}, t0, s.Now, err))
		vsched.Work(int64(2 * o.d))
		t0 = s.Now
		var err2 error
		if m != nil {
			_, err2 = re.FindNextMatch(m)
		}
		*out = append(*out, c14note(c14op{'Q', o.d}, t0, s.Now, err2))
	case 'F':
		// Replace loop whose evaluator idles: three instantaneous scans spread over 1.5 d
		re := regexp2.MustCompile(`ab`)
		re.MatchTimeout = o.d
		t0 := s.Now
		_, err := re.ReplaceFunc("ab ab ab", func(m regexp2.Match) string {
			vsched.Work(int64(o.d / 2))
			return "x"
		}, -1, -1)
		ob := c14note(c14op{'Q', o.d}, t0, s.Now, err)
		ob.t1 = ob.t0 // every scan of the loop finishes at once: a timeout is never due, whatever the evaluator takes
		*out = append(*out, ob)
	case 'L', 'Q', 'M':
		re := regexp2.MustCompile(`(a+)+$`)
		in := c14long
		if o.kind == 'M' {
			// catastrophic without any group loop: adjacent single-character loops separated by literals
			re = regexp2.MustCompile(`^.*a.*a.*a.*a.*a.*a.*!x`)
			in = strings.Repeat("a", 40) + "!y"
		}
		if o.kind == 'Q' {
			re = regexp2.MustCompile(`ab`)
			in = "ab"
		}
		re.MatchTimeout = o.d
		t0 := s.Now
		_, err := re.MatchString(in)
		ob := c14obs{op: o, t0: t0, t1: s.Now}
		if o.kind == 'M' {
			ob.op.kind = 'L' // same oracle as L
		}
		if err != nil {
			if strings.Contains(err.Error(), "match timeout") {
				ob.timedOut = true
			} else {
				ob.otherErr = err.Error()
			}
		}
		*out = append(*out, ob)
	}
}

func c14exec(hists [][]c14op, P time.Duration, prefix []int, jitter int64, verbose bool) (schedOutcome, [][]c14obs) {
	regexp2.VerifResetWorld(P)
	s := vsched.New(prefix)
	s.Jitter = jitter
	s.TimeDev = true // only threads switched to free mode (op Z) ever offer it
	s.Verbose = verbose
	obs := make([][]c14obs, len(hists))
	for i := range hists {
		i := i
		s.Spawn(fmt.Sprintf("client%d", i), int64(c14C), func() {
			for _, o := range hists[i] {
				c14runOp(o, &obs[i])
			}
		})
	}
	s.Run()
	out := schedOutcome{Trace: s.Trace, Steps: s.Steps, Log: s.Log}
	running, _, _, _ := regexp2.VerifClockState()
	switch {
	case s.Diverged != "":
		out.Harness = s.Diverged
	case s.Fault != "":
		out.Verdict = s.Fault
	case s.Deadlock:
		out.Verdict = "deadlock: a thread is blocked forever"
	case s.Aborted:
		out.Verdict = "step horizon exceeded: a timed match never returned or the clock goroutine never stopped"
	}
	if out.Verdict == "" && out.Harness == "" {
		out.Verdict, out.Harness = c14check(obs, P, jitter)
		if out.Verdict == "" && out.Harness == "" {
			if running {
				out.Verdict = "clock still marked running at quiescence"
			} else if n := s.DaemonsAlive(); n > 0 {
				out.Verdict = fmt.Sprintf("%d clock goroutine(s) still alive at quiescence", n)
			}
		}
	}
	var sb strings.Builder
	for _, h := range obs {
		for _, ob := range h {
			fmt.Fprintf(&sb, "%v:%v@%d;", ob.op, ob.timedOut, (ob.t1-ob.t0)/int64(c14C))
		}
		sb.WriteByte('|')
	}
	out.Outcome = sb.String()
	return out, obs
}

func c14check(obs [][]c14obs, P time.Duration, jitter int64) (verdict, harness string) {
	for _, h := range obs {
		for _, ob := range h {
			el := ob.t1 - ob.t0
			d := int64(ob.op.d)
			if ob.otherErr != "" {
				return "unexpected error " + ob.otherErr, ""
			}
			switch ob.op.kind {
			case 'L':
				if !ob.timedOut {
					return fmt.Sprintf("%v did not time out", ob.op), ""
				}
				lo := d - jitter - 2*c14Tick
				hi := d + 3*int64(P) + int64(c14C) + jitter + 2*c14Tick
				if el < lo || el > hi {
					return fmt.Sprintf("%v timed out after %.3fms of virtual time, allowed window [%.3f, %.3f]ms", ob.op, float64(el)/1e6, float64(lo)/1e6, float64(hi)/1e6), ""
				}
			case 'Q':
				// a match that would finish at once: a timeout is only legitimate once d has (all but) elapsed,
				// which happens when the thread was held up that long (free mode); otherwise it is a false timeout
				lo := d - jitter - 2*c14Tick
				if ob.timedOut && el < lo {
					return fmt.Sprintf("%v (a match that finishes at once) reported a timeout after %.3fms of virtual time, before d", ob.op, float64(el)/1e6), ""
				}
			}
		}
	}
	return "", ""
}

func c14Scenarios(tier string) []schedScenario {
	thorough := tier == "thorough"
	d1, d2 := 16*time.Millisecond, 40*time.Millisecond
	jitter := int64(500 * time.Microsecond)
	alpha := []c14op{{'L', d1}, {'Q', d1}, {'L', d2}, {'Q', d2}, {'I', 3 * time.Millisecond}, {'I', 1300 * time.Millisecond}, {'S', 0}}
	var scs []schedScenario
	mk := func(name string, hists [][]c14op, P time.Duration, pb, db int, jit int64) {
		h := hists
		fb := 0
		if len(hists) > 1 {
			// two working clients wake at the same virtual instants over and over; the order in
			// which such ties are broken is bounded like a delay bound (default order + fb departures)
			fb = 2
			if thorough {
				fb = 3
			}
		}
		scs = append(scs, schedScenario{Name: name, PB: pb, DB: db, FB: fb, Cap: 150000, Run: func(prefix []int, verbose bool) schedOutcome {
			o, _ := c14exec(h, P, prefix, jit, verbose)
			return o
		}})
	}
	periods := []time.Duration{4 * time.Millisecond}
	if thorough {
		periods = append(periods, time.Millisecond)
	}
	depth := 3
	if thorough {
		depth = 4
	}
	for _, P := range periods {
		var hists [][]c14op
		var gen func(cur []c14op, n int)
		gen = func(cur []c14op, n int) {
			if len(cur) > 0 {
				hists = append(hists, append([]c14op{}, cur...))
			}
			if n == 0 {
				return
			}
			for _, o := range alpha {
				gen(append(cur, o), n-1)
			}
		}
		gen(nil, depth)
		for _, h := range hists {
			pb := 2
			if len(h) >= 4 {
				pb = 1
			}
			mk(fmt.Sprintf("single P=%v: %v", P, h), [][]c14op{h}, P, pb, 0, 0)
			if len(h) <= 2 {
				mk(fmt.Sprintf("single+jitter P=%v: %v", P, h), [][]c14op{h}, P, 1, 1, jitter)
			}
		}
		// pairs: client A with a long idle between two timed calls; client B arrives phase-aligned with A's second call
		long := 1300 * time.Millisecond
		var as [][]c14op
		for _, x := range []c14op{{'L', d1}, {'Q', d1}, {'L', d2}} {
			for _, y := range []c14op{{'L', d1}, {'Q', d1}, {'Q', d2}, {'L', d2}} {
				as = append(as, []c14op{x, {'I', long}, y})
			}
		}
		as = append(as, []c14op{{'Q', d1}, {'S', 0}, {'I', long}, {'L', d1}}, []c14op{{'L', d1}, {'I', 3 * time.Millisecond}, {'L', d2}})
		for _, a := range as {
			_, dry := c14exec([][]c14op{a}, P, nil, 0, false)
			if len(dry[0]) < 2 {
				continue
			}
			tq := dry[0][1].t0
			for _, bop := range []c14op{{'Q', d1}, {'L', d1}, {'Q', d2}} {
				phases := []int64{-1, 0, 1}
				if thorough {
					phases = []int64{-4, -3, -2, -1, 0, 1, 2, 3, 4}
				}
				for _, ph := range phases {
					off := ph * int64(c14C) / 2
					if thorough {
						off = ph * int64(c14C) / 2
					} else {
						off = ph * int64(c14C)
					}
					b := []c14op{{'I', time.Duration(tq + off)}, bop}
					ppb := 1
					if thorough {
						ppb = 2
					}
					mk(fmt.Sprintf("pair P=%v: %v || %v", P, a, b), [][]c14op{a, b}, P, ppb, 0, 0)
				}
			}
		}
	}
	// stale clock, free interleaving: client A has let the clock run out (long idle), client B arrives at the same
	// instant; both switch to zero-cost mode, so their quick timed calls interleave in every order up to the
	// preemption bound (a thread may be descheduled between any two of its clock operations)
	for _, x := range []c14op{{'Q', d1}, {'L', d1}, {'Q', d2}} {
		for _, da := range []time.Duration{d1, d2} {
			for _, db := range []time.Duration{d1, d2} {
				long := 1300 * time.Millisecond
				a := []c14op{x, {'I', long}, {'Z', 0}, {'Q', da}}
				_, dry := c14exec([][]c14op{a}, 4*time.Millisecond, nil, 0, false)
				if len(dry[0]) < 2 {
					continue
				}
				b := []c14op{{'I', time.Duration(dry[0][1].t0)}, {'Z', 0}, {'Q', db}}
				pb := 2
				if thorough {
					pb = 3
				}
				// two budgets: many preemptions without hold deviations, and one hold deviation with fewer preemptions
				mk(fmt.Sprintf("stale+free P=4ms: %v || %v", a, b), [][]c14op{a, b}, 4*time.Millisecond, pb, 0, 0)
				mk(fmt.Sprintf("stale+free+hold P=4ms: %v || %v", a, b), [][]c14op{a, b}, 4*time.Millisecond, pb-1, 1, 0)
				if thorough {
					b2 := append(append([]c14op{}, b...), c14op{'Q', da})
					mk(fmt.Sprintf("stale+free P=4ms: %v || %v", a, b2), [][]c14op{a, b2}, 4*time.Millisecond, 2, 0, 0)
					mk(fmt.Sprintf("stale+free+hold P=4ms: %v || %v", a, b2), [][]c14op{a, b2}, 4*time.Millisecond, 1, 1, 0)
				}
			}
		}
	}
	// clock about to stop, free interleaving: the client comes back around the instant at which the clock goroutine
	// decides to exit (1 s of slop after the last deadline); in free mode, and with the "held up until the next
	// timer event" deviation, its clock operations interleave with the clock goroutine's last iterations
	for k := 0; k <= 10; k++ {
		if !thorough && k%2 == 1 {
			continue
		}
		idle := time.Second + time.Duration(k)*4*time.Millisecond
		for _, d := range []time.Duration{d1, d2} {
			a := []c14op{{'Q', d1}, {'I', idle}, {'Z', 0}, {'Q', d}}
			pb, dbf := 2, 1
			if thorough {
				pb, dbf = 3, 2
			}
			mk(fmt.Sprintf("exit+free P=4ms: %v", a), [][]c14op{a}, 4*time.Millisecond, pb, dbf, 0)
			if thorough || k%4 == 0 {
				b := []c14op{{'I', idle + 4*time.Millisecond}, {'Z', 0}, {'Q', d1}}
				mk(fmt.Sprintf("exit+free P=4ms: %v || %v", a, b), [][]c14op{a, b}, 4*time.Millisecond, 2, 1, 0)
			}
		}
	}
	// a timed catastrophic match that starts while the clock goroutine is in its last sleeps: the extension must keep
	// (or restart) the clock, or the match never times out; idle values in steps of 1 ms across the exit window
	for k := 0; k <= 44; k++ {
		if !thorough && k%2 == 1 {
			continue
		}
		idle := time.Second + time.Duration(k)*time.Millisecond
		a := []c14op{{'Q', d1}, {'I', idle}, {'L', d1}}
		mk(fmt.Sprintf("exit+L P=4ms: %v", a), [][]c14op{a}, 4*time.Millisecond, 1, 0, 0)
	}
	// free mode from the start: two clients start together, every shim operation is a pure scheduling point
	for _, a := range [][]c14op{{{'Z', 0}, {'Q', d1}}, {{'Z', 0}, {'Q', d1}, {'Q', d2}}} {
		for _, b := range [][]c14op{{{'Z', 0}, {'Q', d1}}, {{'Z', 0}, {'Q', d2}}, {{'Z', 0}, {'Q', d2}, {'Q', d1}}} {
			pb := 2
			if thorough {
				pb = 3
			}
			mk(fmt.Sprintf("together+free P=4ms: %v || %v", a, b), [][]c14op{a, b}, 4*time.Millisecond, pb, 0, 0)
			mk(fmt.Sprintf("together+free+hold P=4ms: %v || %v", a, b), [][]c14op{a, b}, 4*time.Millisecond, pb-1, 1, 0)
		}
	}
	// continuation scans: FindNextMatch after an idle period longer than the timeout, Replace loops whose evaluator
	// idles; every scan gets its own deadline, so none of them may report a timeout
	for _, h := range [][]c14op{{{'N', d1}}, {{'Q', d2}, {'N', d1}}, {{'N', d1}, {'N', d2}}, {{'L', d1}, {'N', d1}}, {{'F', d1}}, {{'Q', d2}, {'F', d1}}, {{'N', d2}, {'F', d1}}, {{'N', d1}, {'S', 0}, {'N', d1}}} {
		mk(fmt.Sprintf("continuation P=4ms: %v", h), [][]c14op{h}, 4*time.Millisecond, 2, 0, 0)
	}
	mk("continuation P=4ms: [Find;idle;FindNext(16ms)] || [Q(40ms)]", [][]c14op{{{'N', d1}}, {{'Q', d2}}}, 4*time.Millisecond, 1, 0, 0)
	// a catastrophic match whose blow-up comes from adjacent single-character loops (no group loop): the timeout must
	// be noticed on every path through the interpreter, not only where group loops jump backwards
	for _, h := range [][]c14op{{{'M', d1}}, {{'Q', d1}, {'M', d2}}, {{'M', d1}, {'I', 1300 * time.Millisecond}, {'M', d1}}, {{'M', d2}, {'S', 0}, {'M', d1}}} {
		mk(fmt.Sprintf("adjacent-loops P=4ms: %v", h), [][]c14op{h}, 4*time.Millisecond, 1, 0, 0)
	}
	// a long and a short timeout started together: the later, shorter deadline must not shorten the clock's life
	// (the clock keeps 1 s of slop after the last deadline, so the long timeout must exceed short + 1 s to show it)
	dl := 2500 * time.Millisecond
	for _, pair := range [][][]c14op{{{{'L', dl}}, {{'Q', d1}}}, {{{'Q', d1}}, {{'L', dl}}}, {{{'L', dl}}, {{'Q', d1}, {'Q', d2}}}} {
		// no preemptions: the two clients run in lock-step (every operation of one ties with the same operation of
		// the other), and the tie order is explored up to the tie bound; the long match has 10^4 scheduling points
		mk(fmt.Sprintf("long+short P=4ms: %v || %v", pair[0], pair[1]), pair, 4*time.Millisecond, 0, 0, 0)
	}
	// very large timeouts (just below "forever"): the deadline arithmetic must not overflow; StopTimeoutClock ends
	// the run because the clock legitimately stays alive until the deadline
	for _, d := range []time.Duration{time.Duration(math.MaxInt64 - 1), time.Duration(math.MaxInt64) - 50*time.Millisecond, time.Duration(math.MaxInt64) - 200*time.Millisecond, 200 * 365 * 24 * time.Hour} {
		mk(fmt.Sprintf("huge P=4ms: [Q(%d ns) S]", int64(d)), [][]c14op{{{'Q', d}, {'S', 0}}}, 4*time.Millisecond, 1, 0, 0)
		mk(fmt.Sprintf("huge P=4ms: [Q(16ms) Q(%d ns) S]", int64(d)), [][]c14op{{{'Q', d1}, {'Q', d}, {'S', 0}}}, 4*time.Millisecond, 1, 0, 0)
	}
	// two clients start together, every shim operation is a pure scheduling point
	for _, a := range [][]c14op{{{'Q', d1}}, {{'L', d1}}, {{'Q', d1}, {'Q', d2}}} {
		for _, b := range [][]c14op{{{'Q', d1}}, {{'Q', d2}}, {{'L', d2}}} {
			pb := 1
			if thorough {
				pb = 2
			}
			mk(fmt.Sprintf("together P=4ms: %v || %v", a, b), [][]c14op{a, b}, 4*time.Millisecond, pb, 0, 0)
		}
	}
	return scs
}
