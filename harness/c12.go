//go:build sched

package main

// C12: results are independent of call history. Explicit-state breadth-first search over call
// histories on the real code: a state is the history that reaches it, its canonical key is a dump
// of the hidden state (pooled runners of every Regexp, global buffer pools, replacement caches,
// clock); every transition executes one real call and compares its result with the result of the
// same call on a fresh world.

import (
	"fmt"
	"sort"
	"strings"
	"time"

	regexp2 "github.com/dlclark/regexp2/v2"
	"github.com/dlclark/regexp2/v2/verifshim/vsched"
	"github.com/dlclark/regexp2/v2/verifshim/vsync"
)

func init() {
	register("C12", runC12)
	replayers["C12"] = replayC12
}

type c12world struct {
	re    map[string]*regexp2.Regexp
	names []string
}

func c12build() *c12world {
	w := &c12world{re: map[string]*regexp2.Regexp{}}
	add := func(n, p string, o ...regexp2.CompileOption) {
		w.re[n] = regexp2.MustCompile(p, o...)
		w.names = append(w.names, n)
	}
	add("R1", `(a)|b`, regexp2.OptionMaxCachedReplacerDataEntries(2)) // bool-only eligible; replacement cache of 2
	add("R2", `(?<o>x)+(?<-o>y)+`)                                    // balancing
	add("R3", `(?:(a)|(b))*c`, regexp2.OptionMaxBacktrackingStackSize(80))
	add("R4", `(?<5>a)(b)?`) // sparse numbers
	add("R5", `(a)|b`)       // second instance: shares only the global pools with R1
	add("R6", `(a+)+$`)      // catastrophic; used with a timeout
	w.re["R6"].MatchTimeout = 5 * time.Millisecond
	add("R7", `(a)(b)`, regexp2.OptionMaxCachedReplacerDataEntries(1)) // replacement cache of 1
	add("R8", `(a)|b`, regexp2.RightToLeft)                            // right-to-left drivers (own buffer handling)
	add("R9", `(a|b)*!`)                                               // one call drives the backtracking stack to tens of thousands of frames
	return w
}

type c12call struct {
	name string
	f    func(w *c12world) string
}

func c12calls() []c12call {
	long1k := strings.Repeat("ab", 512) + "a"  // 1025 runes: second size class
	long4k := strings.Repeat("ba", 2048) + "b" // 4097 runes: third size class
	var cs []c12call
	add := func(name string, f func(w *c12world) string) { cs = append(cs, c12call{name, f}) }
	ms := func(re, in, label string) {
		add(fmt.Sprintf("%s.MatchString(%s)", re, label), func(w *c12world) string { ok, err := w.re[re].MatchString(in); return fmt.Sprint(ok, err) })
	}
	mr := func(re, in, label string) {
		add(fmt.Sprintf("%s.MatchRunes(%s)", re, label), func(w *c12world) string { ok, err := w.re[re].MatchRunes([]rune(in)); return fmt.Sprint(ok, err) })
	}
	find := func(re, in, label string) {
		add(fmt.Sprintf("%s.Find+Groups(%s)", re, label), func(w *c12world) string { return fromMatch(w.re[re].FindStringMatch(in)).String() })
	}
	chain := func(re, in, label string) {
		add(fmt.Sprintf("%s.chain(%s)", re, label), func(w *c12world) string {
			m, err := w.re[re].FindStringMatch(in)
			ch := walkChain(w.re[re], m, err, len(in))
			var sb strings.Builder
			for _, x := range ch.ms {
				sb.WriteString(x.String() + ";")
			}
			return sb.String() + ch.err
		})
	}
	all := func(re, in, label string) {
		add(fmt.Sprintf("%s.FindAllStringIndex(%s)", re, label), func(w *c12world) string {
			x, err := w.re[re].FindAllStringIndex(in, -1)
			return fmt.Sprint(len(x), first3(x), err)
		})
	}
	repl := func(re, in, r, label string) {
		add(fmt.Sprintf("%s.Replace(%s,%q)", re, label, r), func(w *c12world) string {
			x, err := w.re[re].Replace(in, r, -1, -1)
			return fmt.Sprintf("%d:%q %v", len(x), head(x), err)
		})
	}
	split := func(re, in, label string) {
		add(fmt.Sprintf("%s.Split(%s)", re, label), func(w *c12world) string {
			x, err := w.re[re].Split(in, -1)
			return fmt.Sprintf("%d:%q %v", len(x), head(strings.Join(x, "|")), err)
		})
	}
	// R1 / R5: bool-only eligible pattern with captures
	ms("R1", "xab", `"xab"`)
	ms("R1", "xyz", `"xyz"`)
	ms("R1", long1k, "1025 runes")
	mr("R1", "ab", `"ab"`)
	find("R1", "zab", `"zab"`)
	chain("R1", "abéb", `"abéb"`)
	all("R1", "abba", `"abba"`)
	all("R1", long4k, "4097 runes")
	all("R1", "éaé b", `"éaé b"`)
	all("R1", "日本a 語b", `"日本a 語b"`)
	repl("R1", "ab", "<$1>", `"ab"`)
	repl("R1", "ab", "[$&]", `"ab"`)
	repl("R1", "ba", "${1}$1", `"ba"`)
	repl("R1", long1k, "$1", "1025 runes")
	repl("R1", "ab", "{$1$&}", `"ab"`)
	repl("R1", "ab", "$$$1", `"ab"`)
	split("R1", "cabc", `"cabc"`)
	add(`R1.ReplaceFunc("ab") with a nested R1.MatchString`, func(w *c12world) string {
		x, err := w.re["R1"].ReplaceFunc("ab", func(m regexp2.Match) string {
			ok, _ := w.re["R1"].MatchString("b")
			return fmt.Sprint(m.String(), ok)
		}, -1, -1)
		return fmt.Sprintf("%q %v", x, err)
	})
	ms("R5", "xab", `"xab"`)
	find("R5", "b", `"b"`)
	find("R5", long1k, "1025 runes")
	// R2 balancing
	find("R2", "xxyy", `"xxyy"`)
	find("R2", "xyy", `"xyy"`)
	ms("R2", "xxy", `"xxy"`)
	chain("R2", "xyxxy", `"xyxxy"`)
	repl("R2", "xxyy", "<${o}>", `"xxyy"`)
	// R3 stack-limited
	find("R3", "abc", `"abc"`)
	find("R3", strings.Repeat("ab", 40), "80 runes (hits the stack limit)")
	ms("R3", strings.Repeat("ab", 40), "80 runes (hits the stack limit)")
	find("R3", "ab", `"ab" (fails)`)
	// R4 sparse numbers
	find("R4", "ab", `"ab"`)
	find("R4", "a", `"a"`)
	repl("R4", "ab", "${5}$1", `"ab"`)
	// R7 replacement cache of one entry
	repl("R7", "ab", "<$1>", `"ab"`)
	repl("R7", "ab", "[$2$1]", `"ab"`)
	repl("R7", "xab", "${1}-$&", `"xab"`)
	// R8 right-to-left
	repl("R8", "abab", "<$1>", `"abab"`)
	find("R8", "zab", `"zab"`)
	all("R8", "abba", `"abba"`)
	split("R8", "cabc", `"cabc"`)
	// R9 a deep backtracking stack (what a pooled runner keeps, drops or shrinks afterwards must not show)
	ms("R9", strings.Repeat("ab", 3000)+"!", "6001 runes (stack of ~32k frames)")
	find("R9", "xx abba! yy", `"xx abba! yy"`)
	ms("R9", "ab!", `"ab!"`)
	// R6 timed catastrophic match (virtual time: each timeout check costs this thread 1 ms)
	add("R6.MatchString(timeout)", func(w *c12world) string {
		t := vsched.Cur()
		t.LoadCost = int64(time.Millisecond)
		defer func() { t.LoadCost = 0 }()
		ok, err := w.re["R6"].MatchString(strings.Repeat("a", 22) + "b")
		e := ""
		if err != nil {
			e = "timeout"
			if !strings.Contains(err.Error(), "match timeout") {
				e = err.Error()
			}
		}
		return fmt.Sprint(ok, e)
	})
	add("R6.Find(quick)", func(w *c12world) string { return fromMatch(w.re["R6"].FindStringMatch("aa")).String() })
	// pool events the real sync.Pool only shows under load / GC
	add("event:gc (all pools emptied)", func(w *c12world) string { vsync.DropAll(); return "" })
	add("event:rotate (next Get returns the other pooled item)", func(w *c12world) string { vsync.Rotate(); return "" })
	return cs
}

func first3(x [][]int) string {
	if len(x) > 3 {
		x = x[:3]
	}
	return fmt.Sprint(x)
}
func head(s string) string {
	if len(s) > 24 {
		return s[:24]
	}
	return s
}

// c12run replays a history on a fresh world and returns the result of every call and the final state key.
func c12run(calls []c12call, hist []int, contents bool) (results []string, key string, harness string) {
	regexp2.VerifResetWorld(time.Millisecond)
	w := c12build()
	s := vsched.New(nil)
	results = make([]string, len(hist))
	s.Spawn("client", 0, func() {
		for i, ci := range hist {
			func() {
				defer func() {
					if r := recover(); r != nil {
						results[i] = "PANIC " + panicText(r)
					}
				}()
				results[i] = calls[ci].f(w)
			}()
		}
		var sb strings.Builder
		for _, n := range w.names {
			sb.WriteString(n + ":" + w.re[n].VerifStateDump(contents) + "\n")
		}
		sb.WriteString(regexp2.VerifGlobalPoolDump(contents))
		key = sb.String()
	})
	s.Run()
	if s.Aborted || s.Deadlock {
		harness = fmt.Sprintf("execution did not finish (aborted=%v deadlock=%v)", s.Aborted, s.Deadlock)
	}
	if s.Fault != "" && len(results) > 0 {
		// a broken invariant of a shimmed primitive (e.g. one buffer put into a pool twice) is hidden state that
		// leaks into later calls: make the history fail at its last call
		results[len(results)-1] += " [" + s.Fault + "]"
	}
	return
}

func runC12(c *Ctx) {
	c.Level = "model_checking"
	thorough := c.Tier == "thorough"
	fullDepth := 2 // every history of up to this many calls is extended without state de-duplication
	depth := 3
	if thorough {
		fullDepth = 3
		depth = 5
		c.SetBudget(30 * time.Minute)
	} else {
		c.SetBudget(4 * time.Minute)
	}
	calls := c12calls()
	c.Rule = fmt.Sprintf("explicit-state breadth-first search over call histories: alphabet of %d calls (MatchString, MatchRunes, FindStringMatch+all groups, whole FindNextMatch chain, FindAllStringIndex, Replace with 4 replacement strings against a cache of 2, ReplaceFunc with a nested call, Split; on six Regexps: bool-only eligible with captures, balancing groups, stack-limited (calls that hit the limit and calls that do not), sparse group numbers, a second instance sharing only the global pools, a timed catastrophic match that times out in virtual time; inputs of 2..4097 runes crossing three buffer size classes, multi-byte text) plus the pool events 'gc' and 'rotate'; a state is identified by a canonical dump of every pooled runner (selected program, stack sizes and positions, match object flags and counts), the global buffer pools, the replacement cache order and the clock; every transition executes the real call after replaying the shortest history to its source state on a fresh world, and its result must equal the result of the same call on a fresh world. Depth bound %d for the whole alphabet; sub-alphabets (one Regexp plus the pool events, two Regexps sharing the global pools, the timed Regexp plus another) are searched deeper, to a fixpoint where it exists. Non-trivial = transitions that lead to a state not seen before.", len(calls), depth)
	c.Assume("quick tier: the state key leaves out stack and buffer contents, on the argument that every read of a stack slot or pooled buffer cell is preceded by a write in the same scan; the thorough tier includes the contents in the key and does not rely on that argument")
	c.Assume("single client thread under the controlled scheduler, so pool behaviour is deterministic LIFO plus the explicit events")

	// expected result of every call on a fresh world
	expected := make([]string, len(calls))
	for i := range calls {
		r, _, h := c12run(calls, []int{i}, false)
		if h != "" {
			c.NotExhaustive("harness: " + h)
			return
		}
		expected[i] = r[0]
		c.Outcome("fresh-result:"+head(r[0]), 1)
	}
	type node struct{ hist []int }
	var states, transitions, novel int64
	// bfs explores histories over the sub-alphabet idx up to maxDepth or a fixpoint.
	bfs := func(label string, idx []int, maxDepth int) (fix bool, reached int) {
		_, k0, _ := c12run(calls, nil, thorough)
		seen := map[string]bool{k0: true}
		frontier := []node{{nil}}
		states++
		for d := 1; d <= maxDepth && len(frontier) > 0; d++ {
			var next []node
			var tr int64
			for _, n := range frontier {
				if c.Expired() {
					c.NotExhaustive(fmt.Sprintf("internal deadline reached in universe %s at depth %d", label, d))
					return false, reached
				}
				for _, ci := range idx {
					h := append(append([]int{}, n.hist...), ci)
					res, key, harness := c12run(calls, h, thorough)
					transitions++
					tr++
					if harness != "" {
						c.NotExhaustive("harness: " + harness)
						continue
					}
					if got := res[len(res)-1]; got != expected[ci] {
						var names []string
						for _, x := range h {
							names = append(names, calls[x].name)
						}
						c.Report(Violation{Leg: "history", Key: "history|" + strings.Join(names, " ; "), Pattern: calls[ci].name,
							Detail: fmt.Sprintf("after the history [%s] the call %s returns %s; on a fresh world it returns %s", strings.Join(names[:len(names)-1], " ; "), calls[ci].name, got, expected[ci]),
							Extra:  map[string]any{"history": h}})
					}
					if !seen[key] {
						seen[key] = true
						states++
						novel++
						next = append(next, node{h})
					} else if d < fullDepth {
						// short histories are all extended, whatever the state key says: the key is a hand-written dump
						// of the hidden state and cannot know about a carrier that a change to the library adds
						next = append(next, node{h})
					}
				}
			}
			reached = d
			fs := c.Fam(fmt.Sprintf("%s depth %d", label, d))
			fs.Patterns = int64(len(frontier))
			fs.Evaluations = tr
			fs.Nontrivial = int64(len(next))
			fs.Complete = true
			frontier = next
			if len(next) == 0 {
				return true, reached
			}
		}
		return false, reached
	}
	allIdx := make([]int, len(calls))
	for i := range allIdx {
		allIdx[i] = i
	}
	pick := func(prefixes ...string) []int {
		var out []int
		for i, cl := range calls {
			for _, p := range prefixes {
				if strings.HasPrefix(cl.name, p) {
					out = append(out, i)
					break
				}
			}
		}
		return out
	}
	type uni struct {
		label string
		idx   []int
		depth int
	}
	unis := []uni{{"ALL", allIdx, depth}}
	_ = fullDepth
	small := 9
	if thorough {
		small = 12
	}
	unis = append(unis,
		uni{"R1+events", pick("R1.", "event:"), small},
		uni{"R1+R5 (global pools)", pick("R1.MatchString", "R1.FindAll", "R1.Replace(1025", "R5.", "event:"), small},
		uni{"R1 replacements (cache of 2, six replacement strings)", pick("R1.Replace(\"", "R1.MatchString(\"xab\")"), small},
		uni{"R7 replacements (cache of 1)", pick("R7.", "event:gc"), small},
		uni{"R8 right-to-left + R1 (global pools)", pick("R8.", "R1.MatchString(\"xab\")", "R1.Find+Groups", "event:"), small},
		uni{"R9 deep stack", pick("R9.", "event:"), small},
		uni{"R2 balancing", pick("R2.", "event:"), small},
		uni{"R3 stack-limited", pick("R3.", "event:"), small},
		uni{"R4 sparse", pick("R4.", "event:"), small},
		uni{"R6 timeout + R1", pick("R6.", "R1.MatchString(\"xab\")", "R1.Find+Groups", "event:"), small})
	fixAll := map[string]any{}
	for _, u := range unis {
		f, r := bfs(u.label, u.idx, u.depth)
		fixAll[u.label] = map[string]any{"calls": len(u.idx), "depth_reached": r, "fixpoint": f}
		c.Outcome(fmt.Sprintf("universe %s: fixpoint=%v at depth %d", u.label, f, r), 1)
	}
	c.extra["universes"] = fixAll
	fix := false
	reached := depth
	c.Eval(transitions)
	c.Nontrivial(novel)
	c.extra["states"] = states
	c.extra["transitions"] = transitions
	c.extra["traces_validated_against_impl"] = transitions
	c.extra["depth_reached"] = reached
	c.extra["fixpoint_reached"] = fix
	c.extra["call_alphabet"] = len(calls)
	_ = fix
	c.extra["note"] = fmt.Sprintf("universe ALL (the whole alphabet) is explored to depth %d; the per-Regexp universes are explored to a fixpoint where one is reached within their depth bound (see 'universes'): for those the result holds for histories of any length over that sub-alphabet, under the state abstraction of this tier", depth)
	var names []string
	for _, x := range calls {
		names = append(names, x.name)
	}
	sort.Strings(names)
	c.Sample(map[string]any{"calls": names})
	_, k1, _ := c12run(calls, []int{0, 8}, thorough)
	c.Sample(map[string]any{"example_state_key_after_two_calls": k1})
}

func replayC12(v Violation) (bool, string) {
	calls := c12calls()
	var h []int
	if xs, ok := v.Extra["history"].([]any); ok {
		for _, x := range xs {
			h = append(h, int(x.(float64)))
		}
	}
	if len(h) == 0 {
		return false, "no history recorded"
	}
	res, _, _ := c12run(calls, h, false)
	fresh, _, _ := c12run(calls, h[len(h)-1:], false)
	return res[len(res)-1] != fresh[0], fmt.Sprintf("after history: %s; fresh: %s", res[len(res)-1], fresh[0])
}
