package main

// C03: the accelerated scan (prefix filters, candidate search, cut-offs, bump-along) returns
// exactly what the naive scan of the same compiled program returns.

import (
	"time"

	regexp2 "github.com/dlclark/regexp2/v2"
)

func init() {
	register("C03", runC03)
	replayers["C03"] = replayC03
}

// LITAB runs on every string over {a,b} up to the length bound (c never occurs in its patterns)
var profLitAB = profile{name: "{a,b} only", input: []rune{'a', 'b'}}

// the last BMP code point as a pattern letter (the Boyer-Moore tables are built per 16-bit page)
var profLitFFFF = profile{name: "{a,U+FFFF} only", m: map[rune]rune{'b': 0xFFFF}, input: []rune{'a', 'b'}}

var profCorpus = profile{name: "per-pattern inputs (short strings over the pattern's letters + witness neighbourhood, lang.go)"}

func accelFamilies(thorough bool) (jobs []job) {
	core4 := coreFamily("CORE", grammarCore(), 4)
	seq2 := seqFamily(2, true)
	seq3 := seqFamily(3, false)
	altL := altFamily(false)
	loopF := loopFamily(true)
	lookF := lookFamily(false)
	anch := anchFamily(4, false)
	land := landFamily()
	corpus := corpusPatterns()
	anchProf := profile{name: "ANCH {a,\\n,c}", m: map[rune]rune{'b': '\n'}, input: []rune{'a', 'b', 'c'}}
	add := func(fam string, pats []Pat, o optSet, pr profile, L int) {
		jobs = append(jobs, job{fam: fam, pats: pats, opts: o, prof: pr, maxL: L})
	}
	// narrow, shortcut-directed families first (an internal deadline then only ever cuts breadth)
	lim := limFamily()
	for _, o := range []optSet{"", "G", "i", "R"} {
		add("LIM", lim, o, profCorpus, 2)
	}
	altB := altBranchFamily(false)
	add("ALTB", altB, "", profP0, 4)
	add("ALTB", altB, "G", profP0, 4)
	add("ALTB", altB, "i", profP0i, 3)
	bump := bumpFamily()
	add("BUMP", bump, "", profP0, 5)
	add("BUMP", bump, "G", profP0, 4)
	add("BUMP", bump, "m", profP6, 4)
	add("ALTREP", altRepFamily(), "", profP0, 4)
	altSet := altSetFamily()
	add("ALTSET", altSet, "G", profP0, 3)
	add("ALTSET", altSet, "", profP0, 3)
	add("ALTSET", altSet, "iG", profP0i, 3)
	add("ALTSET", altSet, "", profP7, 3)
	add("SEQ k<=2 anchored", seq2, "", profP7, 3)
	add("SEQ k<=2 anchored", seq2, "R", profP7, 3)
	add("SEQ k<=2 anchored", seq2, "i", profP7, 3)
	add("LOOPALT", loopAltFamily(), "", profP0, 5)
	add("LOOP3", loop3Family(false), "", profP0, 5)
	for _, o := range []optSet{"", "G", "R"} {
		add("LAND", land, o, profP0, 5)
	}
	add("CORPUS", corpus, "", profCorpus, 3)
	add("CORPUS", corpus, "G", profCorpus, 3)
	for _, pr := range []profile{profPP, profPQ} {
		add("SEQ k<=2 anchored", seq2, "", pr, 3)
		add("SEQ k<=2 anchored", seq2, "G", pr, 3)
		add("ALT", altL, "", pr, 3)
	}
	litab := litABFamily(thorough)
	add("LITAB", litab, "", profLitAB, 10)
	add("LITAB", litab, "R", profLitAB, 9)
	add("LITAB", litab, "", profLitFFFF, 7)
	add("LITAB", litab, "R", profLitFFFF, 7)
	for _, o := range []optSet{"", "G", "R"} {
		L := 4
		if o == "" {
			L = 5
		}
		if thorough || o == "" {
			add("CORE<=4", core4, o, profP0, 4)
		} else {
			add("CORE<=4", core4, o, profP0, 3)
		}
		add("SEQ k<=2 anchored", seq2, o, profP0, L)
		add("ALT", altL, o, profP0, L)
		add("ANCH<=4", anch, o, anchProf, 4)
		if thorough || o == "" {
			add("ANCH<=4", anch, o+"m", anchProf, 4)
		} else {
			add("ANCH<=4", anch, o+"m", anchProf, 3)
		}
	}
	if thorough {
		add("SEQ k<=3", seq3, "", profP0, 4)
		add("LOOP", loopF, "", profP0, 4)
		add("LOOK", lookF, "", profP0, 4)
	} else {
		add("LOOP", loopF, "", profP0, 3)
		add("LOOK", lookF, "", profP0, 3)
	}
	add("ALT", altL, "i", profP0i, 3)
	add("ALT", altL, "iG", profP0i, 3)
	add("SEQ k<=2 anchored", seq2, "i", profP0i, 3)
	add("SEQ k<=2 anchored", seq2, "m", profP6, 3)
	add("CORE<=4", core4, "", profP1, 3)
	for _, pr := range []profile{profP1, profP2, profP3} {
		add("SEQ k<=2 anchored", seq2, "", pr, 3)
		add("ALT", altL, "G", pr, 3)
	}
	if thorough {
		add("SEQ k<=3", seq3, "G", profP0, 4)
		add("LOOK", lookF, "G", profP0, 4)
		add("CORE<=4", core4, "", profP2, 4)
		add("CORE<=4", core4, "", profP3, 4)
		add("LAND", land, "", profP0, 6)
		add("LAND", land, "G", profP0, 6)
		core5 := coreFamily("CORE", grammarCore(), 5)
		add("CORE<=5", core5, "", profP0, 4)
		add("CORE<=5", core5, "G", profP0, 4)
		add("CORE<=5", core5, "R", profP0, 4)
		seq3a := seqFamily(3, true)
		add("SEQ k<=3 anchored", seq3a, "", profP0, 5)
		add("SEQ k<=3 anchored", seq3a, "G", profP0, 5)
		add("SEQ k<=3", seq3, "", profP0, 6)
		add("ALT full", altFamily(true), "", profP0, 5)
		add("ALT full", altFamily(true), "G", profP0, 5)
		altBf := altBranchFamily(true)
		add("ALTB full", altBf, "", profP0, 5)
		add("ALTB full", altBf, "G", profP0, 5)
		add("ALTB full", altBf, "R", profP0, 4)
		add("ALTB full", altBf, "", profP2, 4)
		add("LOOP", loopF, "", profP0, 5)
		add("LOOP", loopF, "G", profP0, 5)
		add("LOOP", loopF, "R", profP0, 5)
		add("LOOK", lookF, "R", profP0, 4)
		add("LOOK", lookF, "", profP0, 5)
		for _, pr := range []profile{profP1, profP2, profP3, profP6} {
			add("SEQ k<=3", seq3, "", pr, 4)
			add("LOOP", loopF, "", pr, 4)
		}
	}
	return
}

func c03Each(c *Ctx) func(jc *jobCase) (int64, int64, *Violation) {
	return func(jc *jobCase) (n, nt int64, bad *Violation) {
		re, err := regexp2.Compile(jc.src, append(jc.j.opts.compileOptions(), jc.j.extra...)...)
		if err != nil {
			if jc.p.AST == nil {
				return 0, 0, nil // corpus pattern not valid under these options
			}
			return 0, 0, &Violation{Leg: "compile", Detail: "enumerated pattern does not compile: " + err.Error()}
		}
		rtl := re.RightToLeft()
		mode := re.VerifCode().FindOptimizations.FindMode.String()
		c.Outcome("findmode:"+mode, 1)
		if re.VerifHasStringPrefixFilter() {
			c.Outcome("string-prefix-filter", 1)
		}
		for _, in := range jc.inputs {
			s := string(in)
			off := byteOffsets(in)
			for st := 0; st <= len(in); st++ {
				n++
				naive, _, nerr := re.VerifNaiveScan(in, st, st)
				want := fromMatch(naive, nerr)
				got := fromMatch(re.FindRunesMatchStartingAt(in, st))
				if !want.equal(got) {
					return n, nt, vio("runes", in, st, "naive=%s accelerated=%s findmode=%s", want, got, mode)
				}
				gs := fromMatch(re.FindStringMatchStartingAt(s, off[st]))
				if !want.equal(gs) {
					return n, nt, vio("string", in, st, "naive=%s FindStringMatchStartingAt=%s findmode=%s", want, gs, mode)
				}
				if cand, found := re.VerifCandidate(in, st, st); !found || cand != st {
					nt++
				}
				whole := (!rtl && st == 0) || (rtl && st == len(in))
				if whole {
					mr, e1 := re.MatchRunes(in)
					ms, e2 := re.MatchString(s)
					if e1 != nil || e2 != nil || mr != want.ok || ms != want.ok {
						return n, nt, vio("bool", in, st, "naive=%s MatchRunes=%v MatchString=%v (%v %v) findmode=%s", want, mr, ms, e1, e2, mode)
					}
					fs := fromMatch(re.FindStringMatch(s))
					if !want.equal(fs) {
						return n, nt, vio("string", in, st, "naive=%s FindStringMatch=%s findmode=%s", want, fs, mode)
					}
				}
			}
		}
		return
	}
}

func runC03(c *Ctx) {
	c.Level = "exploration"
	thorough := c.Tier == "thorough"
	if thorough {
		c.SetBudget(40 * time.Minute)
	} else {
		c.SetBudget(5 * time.Minute)
	}
	c.Rule = "every pattern of each listed family x option set (G = code-gen analysis, R = RightToLeft) x every input up to the length bound over the profile alphabet x every start offset: FindRunesMatchStartingAt, FindStringMatchStartingAt (byte offset of the same rune offset), and at the whole-input offset MatchRunes/MatchString/FindStringMatch, compared (match, index, length, all captures) with the verif-only naive scan of the same compiled program (attempt at every position in scan order, no prefix filter, no candidate search, no length cut-off, bump-along ignored). Non-trivial = points at which the candidate search moved the scan position or rejected the input."
	c.Assume("hook VerifNaiveScan (verif_hooks.go) runs the same compiled program through the same interpreter, so the check isolates the acceleration layer")
	c.Assume("pattern letters are valid UTF-8 in this check; invalid bytes are covered by C02/C08")
	c.runJobs(accelFamilies(thorough), c03Each(c))
}

func replayC03(v Violation) (bool, string) {
	re, err := regexp2.Compile(v.Pattern, optSet(v.Options).compileOptions()...)
	if err != nil {
		return false, "compile error: " + err.Error()
	}
	in, st := replayInput(v)
	naive, _, nerr := re.VerifNaiveScan(in, st, st)
	want := fromMatch(naive, nerr)
	got := fromMatch(re.FindRunesMatchStartingAt(in, st))
	gs := fromMatch(re.FindStringMatchStartingAt(string(in), byteOffsets(in)[st]))
	ms, _ := re.MatchString(string(in))
	d := "naive=" + want.String() + " runes=" + got.String() + " string=" + gs.String()
	bad := !want.equal(got) || !want.equal(gs)
	if v.Leg == "bool" {
		bad = bad || ms != want.ok
	}
	return bad, d
}

func replayInput(v Violation) ([]rune, int) {
	var in []rune
	if xs, ok := v.Extra["input_runes"].([]any); ok {
		for _, x := range xs {
			in = append(in, rune(x.(float64)))
		}
	}
	st := 0
	if f, ok := v.Extra["start"].(float64); ok {
		st = int(f)
	}
	return in, st
}
