package main

// C13: with a backtracking stack limit L a call returns what it returns without a limit or
// ErrBacktrackingStackLimit; never panics; the stack never exceeds L; success is monotone in L;
// the Regexp stays usable.

import (
	"errors"
	"fmt"
	"strings"
	"sync/atomic"
	"time"

	regexp2 "github.com/dlclark/regexp2/v2"
)

func init() {
	register("C13", runC13)
	replayers["C13"] = replayC13
}

func isLimitErr(err error) bool { return errors.Is(err, regexp2.ErrBacktrackingStackLimit) }

// c13Sweep runs one (pattern, input) under every limit in limits (ascending; -1 = unlimited run is the reference).
func c13Sweep(src string, copts []regexp2.CompileOption, inputs [][]rune, limits []int, c *Ctx) (n, nt int64, bad *Violation) {
	return c13SweepOpt(src, copts, inputs, limits, c, false)
}

// freshEach compiles a new Regexp for every (limit, input) pair, so that every run starts from the initial stack
// allocation (a pooled runner keeps the stack an earlier input has grown, which hides the growth steps of later inputs).
func c13SweepOpt(src string, copts []regexp2.CompileOption, inputs [][]rune, limits []int, c *Ctx, freshEach bool) (n, nt int64, bad *Violation) {
	ref, err := regexp2.Compile(src, append(copts, regexp2.OptionMaxBacktrackingStackSize(-1))...)
	if err != nil {
		return 0, 0, nil
	}
	refRes := make([]mres, len(inputs))
	skip := make([]bool, len(inputs))
	for i, in := range inputs {
		var m *regexp2.Match
		var st regexp2.VerifStackStats
		var err error
		func() {
			defer func() {
				if r := recover(); r != nil {
					if _, ok := r.(regexp2.VerifStepBudgetExceeded); ok {
						skip[i] = true // exponential backtracking: a time question, not a stack question
						return
					}
					panic(r)
				}
			}()
			m, st, err = ref.VerifScanStats(in, startOf(ref, in))
		}()
		if skip[i] || st.Steps > 300000 {
			skip[i] = true
			c.Outcome("skipped: unlimited run needs more than 300000 steps", 1)
			continue
		}
		refRes[i] = fromMatch(m, err)
		if err != nil {
			return 0, 0, vio("unlimited", in, 0, "error without a limit: %v", err)
		}
	}
	probe := []rune("ab")
	succeededAt := make([]int, len(inputs)) // smallest limit at which the input succeeded, -2 = none yet
	for i := range succeededAt {
		succeededAt[i] = -2
	}
	for _, L := range limits {
		re, err := regexp2.Compile(src, append(copts, regexp2.OptionMaxBacktrackingStackSize(L))...)
		if err != nil {
			return n, nt, &Violation{Leg: "compile", Detail: fmt.Sprintf("limit %d: %v", L, err)}
		}
		var fresh *regexp2.Regexp
		for i, in := range inputs {
			if skip[i] {
				continue
			}
			n++
			if freshEach {
				re, _ = regexp2.Compile(src, append(copts, regexp2.OptionMaxBacktrackingStackSize(L))...)
				fresh = nil
			}
			var got mres
			var st regexp2.VerifStackStats
			var gerr error
			pan := func() (p any) {
				defer func() { p = recover() }()
				var m *regexp2.Match
				m, st, gerr = re.VerifScanStats(in, startOf(re, in))
				got = fromMatch(m, gerr)
				return nil
			}()
			if pan != nil {
				return n, nt, vio("panic", in, L, "limit L=%d: %s", L, panicText(pan))
			}
			limited := gerr != nil && isLimitErr(gerr)
			if gerr != nil && !limited {
				return n, nt, vio("error", in, L, "limit L=%d: unexpected error %v", L, gerr)
			}
			if !limited && !got.equal(refRes[i]) {
				return n, nt, vio("result", in, L, "limit L=%d: result %s differs from the unlimited result %s", L, got, refRes[i])
			}
			if L >= 0 && st.TrackCap > L {
				return n, nt, vio("capacity", in, L, "limit L=%d: backtracking stack capacity %d exceeds the limit", L, st.TrackCap)
			}
			if limited {
				nt++
				c.Outcome("limit-error", 1)
				if succeededAt[i] != -2 {
					return n, nt, vio("monotone", in, L, "limit L=%d fails with the stack-limit error although L=%d succeeded", L, succeededAt[i])
				}
				// the Regexp must stay usable: same answer on a probe input as a freshly compiled
				// Regexp with the same limit
				if fresh != nil {
					continue // checked once per (pattern, limit)
				}
				fresh, _ = regexp2.Compile(src, append(copts, regexp2.OptionMaxBacktrackingStackSize(L))...)
				freshRes := fromMatch(fresh.FindRunesMatch(probe))
				after := fromMatch(re.FindRunesMatch(probe))
				if !after.equal(freshRes) {
					return n, nt, vio("usable", in, L, "after a stack-limit error (L=%d) the Regexp answers %s on %q, a fresh one with the same limit answers %s", L, after, string(probe), freshRes)
				}
				fb, fe := fresh.MatchString(string(probe))
				ms, e2 := re.MatchString(string(probe))
				if ms != fb || (e2 == nil) != (fe == nil) {
					return n, nt, vio("usable", in, L, "after a stack-limit error (L=%d) MatchString(%q)=%v,%v; fresh: %v,%v", L, string(probe), ms, e2, fb, fe)
				}
			} else {
				if succeededAt[i] == -2 {
					succeededAt[i] = L
				}
				if st.TrackCap > 64 {
					c.Outcome("stack-grew", 1)
				}
			}
		}
	}
	return
}

func startOf(re *regexp2.Regexp, in []rune) int {
	if re.RightToLeft() {
		return len(in)
	}
	return 0
}

func stackFamily() []Pat {
	// one item per kind of instruction that keeps a frame on the backtracking stack (every single-character loop
	// opcode, greedy and lazy; alternation; captures; group loops): TrackCount has to count each of them
	items := []string{`a*?b*?`, `[ab]*[bc]*`, `(a|b)`, `(?:(a)|(b))`, `(a|b)*?`, `a*?`, `(?:a|ab)`, `[ab]*?[bc]*?`, `[^c]*?[^d]*?`, `[^c]*[^d]*`, `a*b*`}
	var out []Pat
	for ii, it := range items {
		for k := 1; k <= 8; k++ {
			if ii >= 7 && k != 2 && k != 4 && k != 8 {
				continue // the later items: fewer repeat counts (the quick tier's time goes to the breadth families too)
			}
			body := strings.Repeat(it, k)
			for _, t := range []string{"c", "d"} {
				out = append(out, Pat{Src: `(?:` + body + t + `)*d`, Fam: "STACK"})
			}
			out = append(out, Pat{Src: body + `(?:a|b)*d`, Fam: "STACK"})
		}
	}
	return out
}

func stackInputs() [][]rune {
	var out [][]rune
	for _, n := range []int{1, 2, 3, 6, 12, 24} {
		out = append(out, []rune(strings.Repeat("c", n)+"d"), []rune(strings.Repeat("ab", n)+"c"), []rune(strings.Repeat("ab", n)+"d"), []rune(strings.Repeat("a", n)+"c"))
	}
	return out
}

func runC13(c *Ctx) {
	c.Level = "exploration"
	thorough := c.Tier == "thorough"
	if thorough {
		c.SetBudget(35 * time.Minute)
	} else {
		c.SetBudget(4 * time.Minute)
	}
	c.Rule = "(i) breadth: every pattern of CORE<=4, SEQ k<=2, ALT, LOOK, LOOP x every input up to the bound x every limit L in {0..72, 100, 1000, 100000(default)} against the unlimited run; (ii) depth: STACK family (k copies of an item that fills the stack between two capacity checks, inside or before a loop) x inputs c^n d, (ab)^n c, (ab)^n d, a^n c for n in {1,2,3,6,12,24} x EVERY limit from 0 to 4*T0+16 where T0 = max(64, 8*TrackCount) is the pattern's own initial allocation, so every doubling boundary and the values just above it are swept. Oracle per run: result equals the unlimited result or the error is ErrBacktrackingStackLimit; no panic; reported backtracking stack capacity <= L; success at L implies success at every larger swept L; after a limit error the same Regexp answers a probe like a fresh one. Non-trivial = runs that ended in the limit error."
	c.Assume("hook VerifScanStats reports the capacity of the runner's backtracking stack after the ordinary scan")
	var breadthLimits []int
	for L := 0; L <= 72; L++ {
		breadthLimits = append(breadthLimits, L)
	}
	breadthLimits = append(breadthLimits, 100, 1000, 100000)

	var jobs []job
	add := func(fam string, pats []Pat, o optSet, pr profile, L int) {
		jobs = append(jobs, job{fam: fam, pats: pats, opts: o, prof: pr, maxL: L})
	}
	core4 := coreFamily("CORE", grammarCore(), 4)
	core3 := coreFamily("CORE", grammarCore(), 3)
	if thorough {
		add("CORE<=4", core4, "", profP0, 4)
		add("CORE<=4", core4, "R", profP0, 3)
		add("SEQ k<=2 anchored", seqFamily(2, true), "", profP0, 5)
		add("ALT", altFamily(false), "", profP0, 4)
		add("LOOK", lookFamily(false), "", profP0, 4)
		add("LOOP", loopFamily(true), "", profP0, 4)
	} else {
		add("BAL", balFamily(), "", profP0, 5)
		add("CORE<=3", core3, "", profP0, 4)
		add("CORE<=3", core3, "R", profP0, 3)
		add("CORE<=4", core4, "", profP0, 2)
		add("SEQ k<=2 anchored", seqFamily(2, true), "", profP0, 3)
		add("ALT", altFamily(false), "", profP0, 2)
		add("LOOK", lookFamily(false), "", profP0, 1)
		add("LOOP (non-nullable bodies)", loopFamily(false), "", profP0, 1)
	}
	if thorough {
		add("BAL", balFamily(), "", profP0, 5)
	}
	c13Big(c)
	// (ii) STACK sweep relative to each pattern's own initial allocation
	stack := stackFamily()
	fs := c.Fam("STACK every L in [0, 4*T0+16]")
	ins := stackInputs()
	var sp, se, sn int64
	done := c.parallel(len(stack), func(i int) {
		p := stack[i]
		re, err := regexp2.Compile(p.Src)
		if err != nil {
			return
		}
		t0 := 8 * re.VerifCode().TrackCount
		if t0 < 64 {
			t0 = 64
		}
		var limits []int
		for L := 0; L <= 4*t0+16; L++ {
			limits = append(limits, L)
		}
		limits = append(limits, 8*t0-1, 8*t0, 8*t0+1, 8*t0+2, 16*t0+1, 100000)
		freshLimits := limits
		if !thorough {
			// quick: fresh Regexps only in windows around the doubling points of the stack (where the limit can cut a
			// growth step short) and at the small limits; the shared-Regexp pass below still sweeps every L
			freshLimits = nil
			for _, L := range limits {
				near := L <= 16
				for _, b := range []int{t0, 2 * t0, 4 * t0, 8 * t0, 16 * t0} {
					if L >= b-8 && L <= b+24 {
						near = true
					}
				}
				if near || L == 100000 {
					freshLimits = append(freshLimits, L)
				}
			}
		}
		n, nt, bad := c13SweepOpt(p.Src, nil, ins, freshLimits, c, true)
		if bad == nil {
			// second pass with one Regexp per limit: the pooled runner carries its grown stack from input to input
			var n2, nt2 int64
			n2, nt2, bad = c13SweepOpt(p.Src, nil, ins, limits, c, false)
			n += n2
			nt += nt2
		}
		c.mu.Lock()
		sp++
		se += n
		sn += nt
		c.mu.Unlock()
		if bad != nil {
			bad.Pattern = p.Src
			bad.Key = bad.Leg + "||" + p.Src
			c.Report(*bad)
		}
	}, func(i int, r any) {
		c.Report(Violation{Leg: "panic", Key: "panic||" + stack[i].Src, Pattern: stack[i].Src, Detail: panicText(r)})
	})
	fs.Patterns, fs.Evaluations, fs.Nontrivial, fs.Complete = sp, se, sn, done
	c.Eval(se)
	c.Nontrivial(sn)
	c.runJobs(jobs, func(jc *jobCase) (int64, int64, *Violation) {
		return c13Sweep(jc.src, jc.j.opts.compileOptions(), jc.inputs, breadthLimits, c)
	})

	c.Sample(map[string]any{"family": "STACK", "pattern": stack[len(stack)/2].Src, "example_input": string(ins[4]), "limits": "every L from 0 to 4*T0+16"})
}

// c13Big: calls that make the backtracking stack very large (tens of thousands of frames), under no limit, the default
// limit and a small one; afterwards the same Regexp must answer small probes exactly like a fresh one, call after call.
func c13Big(c *Ctx) {
	fs := c.Fam("BIG stacks, then probes on the same Regexp")
	pats := []string{`^(?:ab|b)*c$`, `(?:a|b)*c`, `^(a|ab)*?c$`, `(?:(a)|(b))*c`}
	sizes := []int{10, 1000, 5000, 9000, 17000, 33000, 40000}
	limits := []int{-1, 100000, 1000}
	probes := []string{"abc", "ab", "c", "aabbc"}
	type cs struct {
		p    string
		n, L int
	}
	var all []cs
	for _, p := range pats {
		for _, n := range sizes {
			for _, L := range limits {
				all = append(all, cs{p, n, L})
			}
		}
	}
	var evals, nt int64
	done := c.parallel(len(all), func(i int) {
		k := all[i]
		re, err := regexp2.Compile(k.p, regexp2.OptionMaxBacktrackingStackSize(k.L))
		ref, _ := regexp2.Compile(k.p, regexp2.OptionMaxBacktrackingStackSize(-1))
		if err != nil {
			return
		}
		big := strings.Repeat("ab", k.n) + "c"
		key := fmt.Sprintf("big|L=%d n=%d|%s", k.L, k.n, k.p)
		want := fromMatch(ref.FindStringMatch(big))
		got := fromMatch(re.FindStringMatch(big))
		atomic.AddInt64(&evals, 1)
		limited := got.err != "" && strings.Contains(got.err, "backtracking stack")
		if limited {
			atomic.AddInt64(&nt, 1)
		}
		if !limited && !got.equal(want) {
			c.Report(Violation{Leg: "big-result", Key: key, Pattern: k.p, Input: fmt.Sprintf("(ab)^%d c", k.n), Detail: fmt.Sprintf("limit %d: result %s differs from the unlimited result %s", k.L, got, want)})
			return
		}
		for round := 0; round < 8; round++ {
			for _, pr := range probes {
				fresh, _ := regexp2.Compile(k.p, regexp2.OptionMaxBacktrackingStackSize(k.L))
				w := fromMatch(fresh.FindStringMatch(pr))
				g := fromMatch(re.FindStringMatch(pr))
				wb, we := fresh.MatchString(pr)
				gb, ge := re.MatchString(pr)
				atomic.AddInt64(&evals, 2)
				if !g.equal(w) || gb != wb || (ge == nil) != (we == nil) {
					c.Report(Violation{Leg: "big-usable", Key: key, Pattern: k.p, Input: q(pr), Detail: fmt.Sprintf("limit %d: after a call on (ab)^%d c (result %s) the same Regexp answers %s / %v,%v on %q in round %d; a fresh one answers %s / %v,%v", k.L, k.n, got, g, gb, ge, pr, round, w, wb, we)})
					return
				}
			}
		}
	}, func(i int, r any) {
		k := all[i]
		c.Report(Violation{Leg: "panic", Key: fmt.Sprintf("big-panic|L=%d n=%d|%s", k.L, k.n, k.p), Pattern: k.p, Detail: panicText(r)})
	})
	fs.Patterns, fs.Evaluations, fs.Nontrivial, fs.Complete = int64(len(all)), evals, nt, done
	c.Eval(evals)
	c.Nontrivial(nt)
}

func replayC13(v Violation) (bool, string) {
	in, L := replayInput(v)
	copts := optSet(v.Options).compileOptions()
	c := newCtx("C13", "quick")
	_, _, bad := c13SweepOpt(v.Pattern, copts, [][]rune{in}, []int{L, L + 1, 100000}, c, true)
	if bad != nil {
		return true, bad.Leg + ": " + bad.Detail
	}
	return false, "limit behaviour is correct for this input and limit"
}
