package main

// CORPUS family: every pattern shipped in /repo (fuzz corpus files, test-data corpora and the
// pattern literals of the repository's own tests). A fixed, completely enumerated list.

import (
	"bufio"
	"go/ast"
	"go/parser"
	"go/token"
	"os"
	"path/filepath"
	"sort"
	"strconv"
	"strings"
	"sync"
	"unicode"
	"unicode/utf8"
)

var repoDir = envOr("VERIF_REPO", "/repo")

var (
	corpusOnce sync.Once
	corpusAll  []Pat // every harvested string (C10)
	corpusStat = map[string]int{}
)

func harvestCorpus() {
	seen := map[string]bool{}
	add := func(src, s string) {
		if seen[s] {
			return
		}
		seen[s] = true
		corpusStat[src]++
		corpusAll = append(corpusAll, Pat{Src: s, Fam: "CORPUS:" + src})
	}
	// 1. parser fuzz corpus
	files, _ := filepath.Glob(filepath.Join(repoDir, "syntax/workdir/corpus/*"))
	sort.Strings(files)
	for _, f := range files {
		if b, err := os.ReadFile(f); err == nil {
			add("fuzz", string(b))
		}
	}
	// 2. rust-regex toml
	tomls, _ := filepath.Glob(filepath.Join(repoDir, "testdata/corpus/rust-regex/*.toml"))
	sort.Strings(tomls)
	for _, f := range tomls {
		fh, err := os.Open(f)
		if err != nil {
			continue
		}
		sc := bufio.NewScanner(fh)
		sc.Buffer(make([]byte, 1<<20), 1<<20)
		for sc.Scan() {
			line := strings.TrimSpace(sc.Text())
			if !strings.HasPrefix(line, "regex = ") {
				continue
			}
			v := strings.TrimSpace(strings.TrimPrefix(line, "regex = "))
			switch {
			case strings.HasPrefix(v, "'''") && strings.HasSuffix(v, "'''") && len(v) >= 6:
				add("rust", v[3:len(v)-3])
			case strings.HasPrefix(v, "'") && strings.HasSuffix(v, "'") && len(v) >= 2:
				add("rust", v[1:len(v)-1])
			case strings.HasPrefix(v, `"`):
				if u, err := strconv.Unquote(v); err == nil {
					add("rust", u)
				}
			}
		}
		fh.Close()
	}
	// 3. re2 basic.dat (tab separated: flags, pattern, ...)
	if b, err := os.ReadFile(filepath.Join(repoDir, "testdata/corpus/re2/basic.dat")); err == nil {
		for _, line := range strings.Split(string(b), "\n") {
			if line == "" || line[0] == '#' {
				continue
			}
			var fields []string
			for _, f := range strings.Split(line, "\t") {
				if f != "" {
					fields = append(fields, f)
				}
			}
			if len(fields) >= 2 {
				add("re2", fields[1])
			}
		}
	}
	// 4. pcre testoutput1: /pattern/flags lines
	if b, err := os.ReadFile(filepath.Join(repoDir, "testdata/corpus/pcre/testoutput1")); err == nil {
		for _, line := range strings.Split(string(b), "\n") {
			if len(line) > 2 && line[0] == '/' {
				if j := strings.LastIndexByte(line, '/'); j > 0 {
					add("pcre", line[1:j])
				}
			}
		}
	}
	// 5. pattern literals in the repository's tests
	fset := token.NewFileSet()
	filepath.Walk(repoDir, func(path string, info os.FileInfo, err error) error {
		if err != nil || info.IsDir() || !strings.HasSuffix(path, "_test.go") {
			return nil
		}
		f, err := parser.ParseFile(fset, path, nil, 0)
		if err != nil {
			return nil
		}
		ast.Inspect(f, func(n ast.Node) bool {
			call, ok := n.(*ast.CallExpr)
			if !ok || len(call.Args) == 0 {
				return true
			}
			name := ""
			switch fn := call.Fun.(type) {
			case *ast.Ident:
				name = fn.Name
			case *ast.SelectorExpr:
				name = fn.Sel.Name
			}
			if name != "Compile" && name != "MustCompile" && name != "Parse" {
				return true
			}
			if lit, ok := call.Args[0].(*ast.BasicLit); ok && lit.Kind == token.STRING {
				if s, err := strconv.Unquote(lit.Value); err == nil {
					add("tests", s)
				}
			}
			return true
		})
		return nil
	})
}

func corpusEverything() []Pat {
	corpusOnce.Do(harvestCorpus)
	return corpusAll
}

// corpusPatterns: the harvested patterns usable in differential checks: valid UTF-8, at most
// 120 bytes, and no giant counted repeats (a repeat count of 4 or more digits).
func corpusPatterns() []Pat {
	var out []Pat
	for _, p := range corpusEverything() {
		if len(p.Src) == 0 || len(p.Src) > 120 || !utf8.ValidString(p.Src) {
			continue
		}
		digits, big := 0, false
		for _, r := range p.Src {
			if r >= '0' && r <= '9' {
				digits++
				if digits >= 3 {
					big = true
				}
			} else {
				digits = 0
			}
		}
		if big {
			continue
		}
		out = append(out, Pat{Src: p.Src, Fam: "CORPUS"})
	}
	return out
}

// patternAlphabet derives a small input alphabet from a pattern text: its first three distinct
// letters or digits (plus the other case of the first letter), a blank, a newline and one
// foreign rune.
func patternAlphabet(src string) []rune {
	var out []rune
	seen := map[rune]bool{}
	for _, r := range src {
		if (unicode.IsLetter(r) || unicode.IsDigit(r)) && !seen[r] {
			seen[r] = true
			out = append(out, r)
			if len(out) == 3 {
				break
			}
		}
	}
	if len(out) > 0 {
		u := unicode.ToUpper(out[0])
		if u == out[0] {
			u = unicode.ToLower(out[0])
		}
		if !seen[u] {
			out = append(out, u)
			seen[u] = true
		}
	}
	for _, r := range []rune{' ', '\n', 'é'} {
		if !seen[r] {
			out = append(out, r)
		}
	}
	return out
}
