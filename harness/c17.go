package main

// C17: group numbers and names form one consistent map.
//
// Family GROUPS: every sequence of <= 4 (quick) / <= 5 (thorough) groups drawn from a menu of group
// openings, laid out as a top-level sequence of right-nested chains, each group capturing its own
// letter, so that one match of the witness "abcde"[:k] tells which slot every syntactic group got.

import (
	"fmt"
	"sort"
	"strconv"
	"strings"
	"sync/atomic"
	"time"

	regexp2 "github.com/dlclark/regexp2/v2"
)

func init() {
	register("C17", runC17)
	replayers["C17"] = replayC17
}

const (
	c17Unnamed = iota
	c17Named
	c17Explicit
	c17NonCap
)

type c17Kind struct {
	id   string
	open string
	cls  int
	name string
	num  int
	re2  bool // (?P<name>: only enumerated under RE2
	js   bool // also valid ECMAScript syntax
}

// simplest first
var c17Menu = []c17Kind{
	{id: "U", open: "(", cls: c17Unnamed, js: true},
	{id: "NC", open: "(?:", cls: c17NonCap, js: true},
	{id: "n", open: "(?<n>", cls: c17Named, name: "n", js: true},
	{id: "m", open: "(?'m'", cls: c17Named, name: "m"},
	{id: "w2", open: "(?<w2>", cls: c17Named, name: "w2", js: true},
	{id: "#1", open: "(?<1>", cls: c17Explicit, num: 1},
	{id: "#2", open: "(?<2>", cls: c17Explicit, num: 2},
	{id: "#5", open: "(?<5>", cls: c17Explicit, num: 5},
	{id: "#10", open: "(?<10>", cls: c17Explicit, num: 10},
	{id: "'7", open: "(?'7'", cls: c17Explicit, num: 7},
	{id: "Pn", open: "(?P<n>", cls: c17Named, name: "n", re2: true},
}

// ---- the case: a sequence of menu entries and a nesting mask (bit i: group i+1 is the last child of group i)

func c17Pattern(seq []int, mask uint) string {
	var sb strings.Builder
	depth := 0
	for i, k := range seq {
		sb.WriteString(c17Menu[k].open)
		sb.WriteByte(byte('a' + i))
		if i < len(seq)-1 && mask&(1<<uint(i)) != 0 {
			depth++
			continue
		}
		sb.WriteByte(')')
		for ; depth > 0; depth-- {
			sb.WriteByte(')')
		}
	}
	return sb.String()
}

// span of group i in the witness, and the order in which the groups close
func c17Layout(k int, mask uint) (spans [][2]int, closing []int) {
	spans = make([][2]int, k)
	for s := 0; s < k; {
		e := s
		for e < k-1 && mask&(1<<uint(e)) != 0 {
			e++
		}
		for j := e; j >= s; j-- {
			spans[j] = [2]int{j, e - j + 1}
			closing = append(closing, j)
		}
		s = e + 1
	}
	return
}

// ---- reference numbering (DESIGN 3.3(c)). Input: the group openings in order of '('.
// Output: the number of every syntactic group (-1 = does not capture) and the name of every number;
// ok=false where the documented rule is silent (explicit numbers under pattern order; ECMAScript with
// syntax that is not ECMAScript), in which case only the consistency legs run.
func c17RefNumbers(seq []int, explicitCapture, patternOrder, ecma bool) (num []int, names map[int]string, ok bool) {
	num = make([]int, len(seq))
	names = map[int]string{0: "0"}
	byName := map[string]int{}
	taken := map[int]bool{0: true}
	auto := 1
	for i, k := range seq {
		g := c17Menu[k]
		num[i] = -1
		if ecma && (!g.js || (g.cls == c17Named && byName[g.name] != 0)) {
			return nil, nil, false
		}
		switch {
		case g.cls == c17Unnamed && !explicitCapture:
			num[i] = auto // by order of '(' ; does not skip a number taken by an explicit group
			auto++
		case g.cls == c17Explicit:
			if patternOrder {
				return nil, nil, false
			}
			num[i] = g.num
		case g.cls == c17Named && patternOrder:
			if byName[g.name] == 0 {
				byName[g.name] = auto
				auto++
			}
			num[i] = byName[g.name]
		case g.cls == c17Named:
			byName[g.name] = -1 // numbered below
		}
		if num[i] > 0 {
			taken[num[i]] = true
		}
	}
	if !patternOrder { // named groups afterwards, in order of first appearance, skipping taken numbers
		for i, k := range seq {
			if g := c17Menu[k]; g.cls == c17Named {
				if byName[g.name] < 0 {
					for taken[auto] {
						auto++
					}
					byName[g.name] = auto
					taken[auto] = true
				}
				num[i] = byName[g.name]
			}
		}
	}
	for _, n := range num {
		if n > 0 {
			names[n] = strconv.Itoa(n)
		}
	}
	for nm, n := range byName {
		names[n] = nm
	}
	if ecma { // documented: unnamed groups have no name in ECMAScript mode
		for n, nm := range names {
			if nm == strconv.Itoa(n) {
				names[n] = ""
			}
		}
	}
	return num, names, true
}

// may a compile error be the documented answer?
func c17MayReject(seq []int, o optSet) bool {
	if !o.has('E') {
		return false
	}
	seen := map[string]bool{}
	for _, k := range seq {
		g := c17Menu[k]
		if !g.js || (g.cls == c17Named && seen[g.name]) {
			return true
		}
		if g.cls == c17Named {
			seen[g.name] = true
		}
	}
	return false
}

type c17Result struct {
	src        string
	evals      int64
	nontrivial bool
	outcome    string
	vs         []*Violation
	sample     map[string]any
}

func c17IsNumeric(s string) bool {
	if s == "" {
		return false
	}
	for i := 0; i < len(s); i++ {
		if s[i] < '0' || s[i] > '9' {
			return false
		}
	}
	return true
}

func c17GroupStr(g *regexp2.Group) string {
	if g == nil {
		return "nil"
	}
	var sb strings.Builder
	fmt.Fprintf(&sb, "{name=%q (%d,+%d) caps=[", g.Name, g.RuneIndex, g.RuneLength)
	for i, c := range g.Captures {
		if i > 0 {
			sb.WriteByte(' ')
		}
		fmt.Fprintf(&sb, "(%d,+%d)", c.RuneIndex, c.RuneLength)
	}
	sb.WriteString("]}")
	return sb.String()
}

func c17SameGroup(a, b *regexp2.Group) bool {
	if a == nil || b == nil {
		return a == b
	}
	if a.Name != b.Name || a.RuneIndex != b.RuneIndex || a.RuneLength != b.RuneLength || len(a.Captures) != len(b.Captures) {
		return false
	}
	for i := range a.Captures {
		if a.Captures[i].RuneIndex != b.Captures[i].RuneIndex || a.Captures[i].RuneLength != b.Captures[i].RuneLength {
			return false
		}
	}
	return true
}

var c17ProbeNames = []string{"n", "m", "w2", "zz", "0", "1", "2", "3", "4", "5", "6", "7", "8", "9", "10", "11", "12"}

// c17Check evaluates every leg on one case; at most one violation per leg is returned.
func c17Check(seq []int, mask uint, o optSet) (res c17Result) {
	k := len(seq)
	src := c17Pattern(seq, mask)
	res.src = src
	witness := "abcde"[:k]
	ids := make([]string, k)
	for i, s := range seq {
		ids[i] = c17Menu[s].id
	}
	failed := map[string]bool{}
	fail := func(leg, input, format string, a ...any) {
		if failed[leg] {
			return
		}
		failed[leg] = true
		res.vs = append(res.vs, &Violation{Leg: leg, Key: leg + "|" + string(o) + "|" + src, Pattern: src, Options: string(o), Input: q(input),
			Detail: fmt.Sprintf(format, a...), Extra: map[string]any{"seq": seq, "mask": mask, "kinds": ids}})
	}
	ecma := o.has('E')
	order := o.has('O') || ecma
	// option letter N: ExplicitCapture spelled as a leading inline (?n) instead of the compile option
	co := optSet(strings.ReplaceAll(string(o), "N", ""))
	pre, explicit := "", o.has('n')
	if o.has('N') {
		pre, explicit = "(?n)", true
	}
	expNum, expName, modelOK := c17RefNumbers(seq, explicit, order, ecma)

	re, err := compileWith(pre+src, co)
	res.evals++
	if err != nil {
		if c17MayReject(seq, o) {
			res.outcome = "rejected (not ECMAScript syntax)"
			return
		}
		res.outcome = "compile error"
		fail("compile", "", "enumerated pattern does not compile under options %q: %v", string(o), err)
		return
	}
	names, nums := re.GetGroupNames(), re.GetGroupNumbers()
	m, err := re.FindStringMatch(witness)
	res.evals++
	if err != nil || m == nil || m.RuneIndex != 0 || m.RuneLength != k {
		fail("witness", witness, "the pattern must match its witness entirely; got %s", fromMatch(m, err))
		return
	}
	groups := m.Groups()

	// ---- list shape
	shapeOK := len(names) == len(nums) && len(groups) == len(nums) && len(nums) > 0 && nums[0] == 0 && m.GroupCount() == len(nums)
	if !shapeOK {
		fail("list-shape", witness, "GetGroupNames=%q GetGroupNumbers=%v len(Groups())=%d GroupCount()=%d: lengths differ or group 0 is not first", names, nums, len(groups), m.GroupCount())
		return
	}
	seenNum, seenName := map[int]int{}, map[string]int{}
	for i := range nums {
		res.evals++
		if j, dup := seenNum[nums[i]]; dup {
			fail("list-shape", witness, "GetGroupNumbers=%v lists number %d twice (positions %d and %d)", nums, nums[i], j, i)
		}
		seenNum[nums[i]] = i
		if names[i] != "" {
			if j, dup := seenName[names[i]]; dup {
				fail("list-shape", witness, "GetGroupNames=%q lists name %q twice (positions %d and %d; numbers %v)", names, names[i], j, i, nums)
			}
			seenName[names[i]] = i
		}
	}

	// ---- documented on GroupNameFromNumber/GroupNumberFromName: a group without a name of its own is called by the
	// decimal string of its number (no name in ECMAScript mode); hence a listed name is the decimal string of its own
	// number, or a name written in the pattern (\k<7>, ${7} always parse as numbers, so a numeric name that is not
	// its own number would make GroupByName("7") and \k<7> designate different groups).
	written := map[string]bool{}
	for _, s := range seq {
		if g := c17Menu[s]; g.cls == c17Named {
			written[g.name] = true
		}
	}
	for i := range nums {
		res.evals++
		switch nm := names[i]; {
		case nm == "" && ecma:
		case nm == strconv.Itoa(nums[i]) && !ecma:
		case written[nm]:
		default:
			fail("default-name", witness, "GetGroupNumbers[%d]=%d is listed with name %q, which is neither a name written in the pattern nor the decimal string of the number (names=%q numbers=%v)", i, nums[i], nm, names, nums)
		}
	}

	// ---- name <-> number round trips, lookups of unknown numbers and names
	for i := range nums {
		res.evals += 2
		if got := re.GroupNameFromNumber(nums[i]); got != names[i] {
			fail("name-number-roundtrip", witness, "GetGroupNumbers[%d]=%d, GetGroupNames[%d]=%q but GroupNameFromNumber(%d)=%q (names=%q numbers=%v)", i, nums[i], i, names[i], nums[i], got, names, nums)
		}
		if names[i] != "" {
			if got := re.GroupNumberFromName(names[i]); got != nums[i] {
				fail("name-number-roundtrip", witness, "GetGroupNames[%d]=%q, GetGroupNumbers[%d]=%d but GroupNumberFromName(%q)=%d (names=%q numbers=%v)", i, names[i], i, nums[i], names[i], got, names, nums)
			}
		}
	}
	for x := -1; x <= 12; x++ {
		if _, listed := seenNum[x]; listed {
			continue
		}
		res.evals += 2
		if got := re.GroupNameFromNumber(x); got != "" {
			fail("unknown-number", witness, "%d is not in GetGroupNumbers=%v but GroupNameFromNumber(%d)=%q", x, nums, x, got)
		}
		if g := m.GroupByNumber(x); g != nil {
			fail("unknown-number", witness, "%d is not in GetGroupNumbers=%v but GroupByNumber(%d) returns %s instead of nil", x, nums, x, c17GroupStr(g))
		}
	}
	for _, nm := range c17ProbeNames {
		if _, listed := seenName[nm]; listed {
			continue
		}
		res.evals += 2
		if got := re.GroupNumberFromName(nm); got != -1 {
			fail("unknown-name", witness, "%q is not in GetGroupNames=%q but GroupNumberFromName(%q)=%d", nm, names, nm, got)
		}
		if g := m.GroupByName(nm); g != nil {
			fail("unknown-name", witness, "%q is not in GetGroupNames=%q but GroupByName(%q) returns %s instead of nil", nm, names, nm, c17GroupStr(g))
		}
	}

	// ---- Groups()[i] <-> GroupByNumber <-> GroupByName
	for i := range nums {
		res.evals += 3
		if groups[i].Name != names[i] {
			fail("groups-name", witness, "Groups()[%d].Name=%q but GetGroupNames[%d]=%q (number %d)", i, groups[i].Name, i, names[i], nums[i])
		}
		if g := m.GroupByNumber(nums[i]); !c17SameGroup(g, &groups[i]) {
			fail("group-by-number", witness, "GroupByNumber(%d)=%s but Groups()[%d]=%s (numbers=%v)", nums[i], c17GroupStr(g), i, c17GroupStr(&groups[i]), nums)
		}
		if names[i] != "" {
			if g := m.GroupByName(names[i]); !c17SameGroup(g, &groups[i]) {
				fail("group-by-name", witness, "GroupByName(%q)=%s but Groups()[%d]=%s (names=%q)", names[i], c17GroupStr(g), i, c17GroupStr(&groups[i]), names)
			}
		}
	}

	// ---- which slot did every syntactic group receive?
	spans, closing := c17Layout(k, mask)
	slotOf := make([]int, k)
	capturing := 0
	for i := range seq {
		slotOf[i] = -1
		g := c17Menu[seq[i]]
		isCap := g.cls == c17Named || g.cls == c17Explicit || (g.cls == c17Unnamed && !explicit)
		if isCap {
			capturing++
		}
		found := 0
		for s := 1; s < len(groups); s++ {
			for _, cp := range groups[s].Captures {
				if cp.RuneIndex == spans[i][0] && cp.RuneLength == spans[i][1] {
					found++
					slotOf[i] = s
				}
			}
		}
		res.evals++
		if isCap && found != 1 {
			fail("slot-assignment", witness, "capturing group %d (%s, letter %c) appears in %d slots of Groups(); numbers=%v names=%q groups=%s", i, g.open, 'a'+i, found, nums, names, c17GroupsStr(groups))
		}
		if !isCap && found != 0 {
			fail("slot-assignment", witness, "non-capturing group %d (%s, letter %c) appears in Groups(); numbers=%v groups=%s", i, g.open, 'a'+i, nums, c17GroupsStr(groups))
		}
	}
	total := 0
	for s := 1; s < len(groups); s++ {
		res.evals++
		total += len(groups[s].Captures)
		if len(groups[s].Captures) == 0 {
			fail("slot-assignment", witness, "group number %d (name %q) is listed but no group of the pattern captures into it although every group takes part in the match; numbers=%v names=%q groups=%s", nums[s], names[s], nums, names, c17GroupsStr(groups))
		}
	}
	if total != capturing {
		fail("slot-assignment", witness, "the pattern has %d capturing groups but Groups()[1:] hold %d captures; numbers=%v groups=%s", capturing, total, nums, c17GroupsStr(groups))
	}
	if len(groups[0].Captures) != 1 || groups[0].RuneIndex != 0 || groups[0].RuneLength != k {
		fail("slot-assignment", witness, "group 0 is not the whole match: %s", c17GroupStr(&groups[0]))
	}

	// ---- the documented numbering rule
	if modelOK {
		wantNums := []int{0}
		wantCaps := map[int][][2]int{0: {{0, k}}}
		for _, i := range closing {
			if n := expNum[i]; n > 0 {
				if _, ok := wantCaps[n]; !ok {
					wantNums = append(wantNums, n)
				}
				wantCaps[n] = append(wantCaps[n], spans[i])
			}
		}
		sort.Ints(wantNums)
		res.evals++
		if fmt.Sprint(wantNums) != fmt.Sprint(nums) {
			fail("model-numbers", witness, "documented rule gives group numbers %v (per group in pattern order: %v), GetGroupNumbers=%v GetGroupNames=%q", wantNums, expNum, nums, names)
		} else {
			for i, n := range nums {
				res.evals += 2
				if names[i] != expName[n] {
					fail("model-names", witness, "documented rule names group number %d %q, GetGroupNames[%d]=%q (numbers=%v names=%q)", n, expName[n], i, names[i], nums, names)
				}
				var got [][2]int
				for _, cp := range groups[i].Captures {
					got = append(got, [2]int{cp.RuneIndex, cp.RuneLength})
				}
				if fmt.Sprint(got) != fmt.Sprint(wantCaps[n]) {
					fail("model-captures", witness, "documented rule numbers the groups %v, so group number %d must hold captures %v; Groups()[%d] holds %v (all: %s)", expNum, n, wantCaps[n], i, got, c17GroupsStr(groups))
				}
			}
		}
		for i, n := range expNum { // non-trivial: the numbering is not simply "k-th capturing parenthesis"
			cnt := 0
			for j := 0; j <= i; j++ {
				if expNum[j] > 0 {
					cnt++
				}
			}
			if n > 0 && n != cnt {
				res.nontrivial = true
			}
		}
		res.outcome = "model+consistency"
	} else {
		res.nontrivial = true
		res.outcome = "consistency only (rule silent)"
	}

	// ---- backreferences by number and by name, appended to the pattern.
	// Texts of different slots start with different letters, so "pattern+ref matches witness+T entirely" pins the
	// referenced text to T exactly. Fast path: all references of all slots in one pattern; any failure is then
	// attributed by compiling every reference on its own.
	type refForm struct {
		leg, ref string
		slot     int
		text     string
	}
	var forms []refForm
	for s := 1; s < len(groups); s++ {
		if len(groups[s].Captures) == 0 {
			continue
		}
		T := groups[s].String()
		N := strconv.Itoa(nums[s])
		forms = append(forms, refForm{"backref-number", `\` + N, s, T})
		if !ecma {
			forms = append(forms, refForm{"backref-number", `\k<` + N + `>`, s, T}, refForm{"backref-number", `\k'` + N + `'`, s, T})
		}
		if nm := names[s]; nm != "" && !c17IsNumeric(nm) {
			forms = append(forms, refForm{"backref-name", `\k<` + nm + `>`, s, T})
			if !ecma {
				forms = append(forms, refForm{"backref-name", `\k'` + nm + `'`, s, T})
			}
			if o.has('2') {
				forms = append(forms, refForm{"backref-name", `(?P=` + nm + `)`, s, T})
			}
		}
	}
	refOK := func(fs []refForm, report bool) bool {
		p2, in := src, witness
		for _, f := range fs {
			p2 += f.ref
			in += f.text
		}
		f := fs[0]
		re2, err := compileWith(pre+p2, co)
		res.evals++
		if err != nil {
			if report {
				fail(f.leg, in, "%s designates listed group number %d (name %q) but %q does not compile: %v", f.ref, nums[f.slot], names[f.slot], p2, err)
			}
			return false
		}
		if n2, u2 := re2.GetGroupNames(), re2.GetGroupNumbers(); fmt.Sprint(n2) != fmt.Sprint(names) || fmt.Sprint(u2) != fmt.Sprint(nums) {
			if report {
				fail("backref-numbering", witness, "appending %s changes the group map: %q %v -> %q %v", f.ref, names, nums, n2, u2)
			}
			return false
		}
		m2, err := re2.FindStringMatch(in)
		res.evals++
		if got := fromMatch(m2, err); got.err != "" || !got.ok || got.idx != 0 || got.ln != len(in) {
			if report {
				fail(f.leg, in, "group number %d (name %q) captured %q on the witness, so %s must repeat it and %q must match %q entirely; got %s", nums[f.slot], names[f.slot], f.text, f.ref, p2, in, got)
			}
			return false
		}
		return true
	}
	if len(forms) > 0 && !refOK(forms, false) {
		for _, f := range forms {
			refOK([]refForm{f}, true)
		}
	}

	// ---- $N, ${N}, ${name} in replacement strings (same two-step scheme)
	first := 1
	if !ecma {
		first = 0 // $0 is the whole match in the .NET grammar; ECMAScript has no $0
	}
	var reps []refForm
	for s := first; s < len(groups); s++ {
		if len(groups[s].Captures) == 0 {
			continue
		}
		T := groups[s].String()
		N := strconv.Itoa(nums[s])
		reps = append(reps, refForm{"replace-number", "[$" + N + "]", s, T}, refForm{"replace-number", "[${" + N + "}]", s, T})
		if nm := names[s]; nm != "" && !c17IsNumeric(nm) {
			reps = append(reps, refForm{"replace-name", "[${" + nm + "}]", s, T})
		}
	}
	repOK := func(fs []refForm, report bool) bool {
		rep, want := "", ""
		for _, f := range fs {
			rep += f.ref
			want += "[" + f.text + "]"
		}
		got, err := re.Replace(witness, rep, -1, -1)
		res.evals++
		if err != nil || got != want {
			if report {
				f := fs[0]
				fail(f.leg, witness, "group number %d (name %q) captured %q, so Replace(%q, %q) must give %q; got %q err=%v", nums[f.slot], names[f.slot], f.text, witness, rep, want, got, err)
			}
			return false
		}
		return true
	}
	if len(reps) > 0 && !repOK(reps, false) {
		for _, f := range reps {
			repOK([]refForm{f}, true)
		}
	}
	if res.sample == nil {
		res.sample = map[string]any{"pattern": src, "options": string(o), "witness": witness, "kinds": ids, "GetGroupNumbers": nums, "GetGroupNames": names,
			"slot_of_each_syntactic_group": slotOf, "model_numbers": expNum, "oracle": res.outcome}
	}
	return
}

func c17GroupsStr(gs []regexp2.Group) string {
	var sb strings.Builder
	for i := range gs {
		if i > 0 {
			sb.WriteByte(' ')
		}
		sb.WriteString(strconv.Itoa(i) + ":" + c17GroupStr(&gs[i]))
	}
	return sb.String()
}

// masks for k groups: all right-nestings, or only sequential / one nested pair / the full chain
func c17Masks(k int, all bool) []uint {
	var out []uint
	for m := uint(0); m < 1<<uint(k-1); m++ {
		bits := 0
		for b := m; b != 0; b &= b - 1 {
			bits++
		}
		if all || bits <= 1 || m == 1<<uint(k-1)-1 {
			out = append(out, m)
		}
	}
	sort.SliceStable(out, func(i, j int) bool {
		bi, bj := 0, 0
		for b := out[i]; b != 0; b &= b - 1 {
			bi++
		}
		for b := out[j]; b != 0; b &= b - 1 {
			bj++
		}
		return bi < bj
	})
	return out
}

func runC17(c *Ctx) {
	c.Level = "model_checking"
	thorough := c.Tier == "thorough"
	maxK := 4
	if thorough {
		maxK = 5
		c.SetBudget(30 * time.Minute)
	} else {
		c.SetBudget(3 * time.Minute)
	}
	c.Rule = "family GROUPS: EVERY sequence of 1.." + strconv.Itoa(maxK) + " groups, each drawn from the menu {(x) (?:x) (?<n>x) (?'m'x) (?<w2>x) (?<1>x) (?<2>x) (?<5>x) (?<10>x) (?'7'x); under RE2 also (?P<n>x)} " +
		"(repetition allowed, so duplicate names and duplicate explicit numbers occur), laid out as a top-level sequence of right-nested chains (nesting mask: group i contains group i+1 as its last item; all 2^(k-1) masks below the largest k; " +
		"at the largest k (4 quick, 5 thorough) sequential + every single nested pair + the full chain), group i capturing its own letter, x option sets {none, n, N = ExplicitCapture spelled as a leading inline (?n), O+N, RE2, RE2+n, MaintainCaptureOrder, O+n, RE2+O, ECMAScript, E+n}. " +
		"One match of the witness abcde[:k] shows which slot each syntactic group received (capture spans are pairwise distinct). Oracle (1) an independent reference numbering (unnamed by '(' order, explicit numbers keep their number, " +
		"named afterwards in order of first appearance skipping taken numbers; pure pattern order under MaintainCaptureOrder/ECMAScript; ExplicitCapture removes unnamed; decimal default names, none in ECMAScript) predicts numbers, names and the capture list of every number; " +
		"it is NOT applied where the documented rule is silent (explicit numbers under pattern order, non-ECMAScript syntax under ECMAScript). Oracle (2), always: names/numbers lists have equal length without duplicates; GroupNameFromNumber/GroupNumberFromName are inverse on listed " +
		"entries, a listed name is a name written in the pattern or the decimal string of its own number, and lookups return \"\"/-1 (GroupByNumber/GroupByName nil) on unlisted numbers -1..12 and probe names; Groups()[i].Name, GroupByNumber(numbers[i]), GroupByName(names[i]) are Groups()[i]; every capturing group sits in exactly one slot, no listed number is empty; " +
		"pattern+\\N, \\k<N>, \\k'N', \\k<name>, \\k'name', (?P=name) compile, keep the map and match witness+T entirely where T is that group's text (texts of different groups start with different letters, so this pins the referenced group; all references are first tried in one pattern, a failure is attributed by retrying each alone); Replace with [$N], [${N}], [${name}] yields that text. " +
		"Family BALANCE: every flat sequence of 2..5 (6 thorough) groups over {(x) (?<n>x) (?<m>x) (?<b-n>x) (?<-n>x) (?<m-n>x) (?'c-m'x)} whose pops always find a capture, x {O, none, O+n, n, RE2+O}: numbers, names, the capture list and value of every number (model: a balancing group counts as a named group of its left name; it pops the right name's last capture and captures the text between that capture and itself), GroupByNumber/GroupByName/Groups() and one Replace naming every group both ways. " +
		"Non-trivial = cases whose numbering differs from 'k-th capturing parenthesis gets k' or where only consistency applies."
	c.Assume("ECMAScript mode: a compile error is accepted for groups that are not ECMAScript syntax ((?'m'x), numeric names) and for duplicate names; if such a pattern compiles only the consistency legs run")
	c.Assume("MaintainCaptureOrder with explicitly numbered groups: README is silent on which number the group gets, so only compilation and the consistency legs are demanded")
	c.Assume("RE2 mode is documented not to change numbering, so the default (.NET) rule is the reference there")
	c.Assume("numeric \\k<N> and $0 are not exercised under ECMAScript (not ECMAScript syntax)")

	optSets := []optSet{"", "n", "N", "2", "2n", "O", "On", "ON", "2O", "E", "En"}
	// a few members of the enumeration, written out
	for _, sm := range []struct {
		kinds []string
		mask  uint
		o     optSet
	}{
		{[]string{"U", "n", "U"}, 0, ""}, {[]string{"U", "n", "U"}, 0, "O"}, {[]string{"U", "n", "U"}, 0, "n"}, {[]string{"#5", "n", "U"}, 0, ""},
		{[]string{"n", "U", "n", "#2"}, 2, ""}, {[]string{"Pn", "U", "n"}, 1, "2"}, {[]string{"U", "n", "w2"}, 1, "E"}, {[]string{"#2", "U", "U"}, 0, "O"},
		{[]string{"'7", "m", "#1", "U"}, 4, "2n"},
	} {
		var seq []int
		for _, id := range sm.kinds {
			for i, g := range c17Menu {
				if g.id == id {
					seq = append(seq, i)
				}
			}
		}
		func() {
			defer func() { recover() }()
			if r := c17Check(seq, sm.mask, sm.o); r.sample != nil {
				c.Sample(r.sample)
			}
		}()
	}
	balK := 5
	if thorough {
		balK = 6
	}
	c17RunBalance(c, balK)
	for _, o := range optSets {
		var menu []int
		for i, g := range c17Menu {
			if !g.re2 || o.has('2') {
				menu = append(menu, i)
			}
		}
		M := len(menu)
		famName := fmt.Sprintf("GROUPS k<=%d opts=%q", maxK, string(o))
		fs := c.Fam(famName)
		fs.Complete = true
		var perK []string
		for k := 1; k <= maxK; k++ {
			if c.Expired() {
				fs.Complete = false
				c.NotExhaustive(fmt.Sprintf("internal deadline reached before %s k=%d", famName, k))
				break
			}
			masks := c17Masks(k, k < maxK)
			nseq := 1
			for i := 0; i < k; i++ {
				nseq *= M
			}
			total := nseq * len(masks)
			var fp, fe, fn int64
			decode := func(i int) ([]int, uint) {
				si, mi := i/len(masks), i%len(masks)
				seq := make([]int, k)
				for d := k - 1; d >= 0; d-- {
					seq[d] = menu[si%M]
					si /= M
				}
				return seq, masks[mi]
			}
			done := c.parallel(total, func(i int) {
				seq, mask := decode(i)
				r := c17Check(seq, mask, o)
				atomic.AddInt64(&fp, 1)
				atomic.AddInt64(&fe, r.evals)
				if r.nontrivial {
					atomic.AddInt64(&fn, 1)
				}
				c.Outcome(r.outcome, 1)
				for _, v := range r.vs {
					c.Outcome(fmt.Sprintf("violating cases opts=%q leg=%s", string(o), v.Leg), 1)
					c.Report(*v)
				}
			}, func(i int, rec any) {
				seq, mask := decode(i)
				src := c17Pattern(seq, mask)
				c.Outcome(fmt.Sprintf("violating cases opts=%q leg=panic", string(o)), 1)
				c.Report(Violation{Leg: "panic", Key: "panic|" + string(o) + "|" + src, Pattern: src, Options: string(o), Input: q("abcde"[:k]), Detail: panicText(rec),
					Extra: map[string]any{"seq": seq, "mask": mask}})
			})
			fs.Patterns += fp
			fs.Evaluations += fe
			fs.Nontrivial += fn
			c.Eval(fe)
			c.Nontrivial(fn)
			perK = append(perK, fmt.Sprintf("k=%d:%d", k, fp))
			if !done {
				fs.Complete = false
				c.NotExhaustive(fmt.Sprintf("internal deadline reached inside %s k=%d (%d of %d cases)", famName, k, fp, total))
				break
			}
		}
		fs.Note = strings.Join(perK, " ")
	}
	c.extra["states"] = c.evals.Load()
	c.extra["transitions"] = c.evals.Load()
	c.extra["traces_validated_against_impl"] = c.evals.Load()
}

func replayC17(v Violation) (bool, string) {
	if xs, ok := v.Extra["balseq"].([]any); ok {
		var seq []int
		for _, x := range xs {
			seq = append(seq, int(x.(float64)))
		}
		var vs []*Violation
		var pan any
		func() {
			defer func() { pan = recover() }()
			vs, _, _ = c17balCheck(seq, optSet(v.Options))
		}()
		if pan != nil {
			return v.Leg == "panic", panicText(pan)
		}
		for _, x := range vs {
			if x.Leg == v.Leg {
				return true, x.Leg + ": " + x.Detail
			}
		}
		return false, "the leg holds now"
	}
	var seq []int
	if xs, ok := v.Extra["seq"].([]any); ok {
		for _, x := range xs {
			seq = append(seq, int(x.(float64)))
		}
	}
	mask := uint(0)
	if f, ok := v.Extra["mask"].(float64); ok {
		mask = uint(f)
	}
	if len(seq) == 0 {
		return false, "replay artefact carries no group sequence"
	}
	if got := c17Pattern(seq, mask); got != v.Pattern {
		return false, fmt.Sprintf("artefact inconsistent: sequence prints %q, recorded pattern %q", got, v.Pattern)
	}
	var r c17Result
	var pan any
	func() {
		defer func() { pan = recover() }()
		r = c17Check(seq, mask, optSet(v.Options))
	}()
	if pan != nil {
		return v.Leg == "panic", panicText(pan)
	}
	for _, x := range r.vs {
		if x.Leg == v.Leg {
			return true, x.Leg + ": " + x.Detail
		}
	}
	if len(r.vs) > 0 {
		return false, fmt.Sprintf("leg %s holds now (other legs still fail: %s)", v.Leg, r.vs[0].Leg)
	}
	return false, "every leg holds"
}
