package main

// C16: character-class membership is exact set algebra.
//
// Two levels, so that the check never argues about what a shorthand "means":
//   (1) ATOMS  - single-item classes [x] - against independent definitions (Go's unicode tables,
//       ASCII tables, the RE2 / ECMAScript definitions) where one is documented unambiguously;
//   (2) COMPOUNDS against set algebra over the MEASURED membership tables of their own parts:
//       [xy] = [x] u [y], [^xy] = not([x] u [y]), [B-[S]] = [B] minus [S] (B, S measured as classes of their
//       own), nested subtraction recursively.
// Every class text is evaluated through every lookup path: CharSet.CharIn on the set in the parsed tree
// before and after PrepareCharSetASCIIBitmaps, and MatchRunes of ^[..]$, [..]+ and x*[..] on the one-rune
// input, each compiled with and without the ASCII bitmap.

import (
	"fmt"
	"os"
	"sort"
	"strings"
	"sync"
	"sync/atomic"
	"time"
	"unicode"

	regexp2 "github.com/dlclark/regexp2/v2"
	"github.com/dlclark/regexp2/v2/syntax"
)

func init() {
	register("C16", runC16)
	replayers["C16"] = replayC16
}

// ---------------------------------------------------------------------------------------------
// modes

type c16Mode struct {
	opts          optSet
	ic, ecma, re2 bool
}

var c16Modes = []c16Mode{
	{opts: ""},
	{opts: "i", ic: true},
	{opts: "E", ecma: true},
	{opts: "2", re2: true},
	{opts: "i2", ic: true, re2: true},
}

func c16ModeOf(o string) c16Mode {
	m := c16Mode{opts: optSet(strings.ReplaceAll(o, "B", ""))}
	m.ic, m.ecma, m.re2 = m.opts.has('i'), m.opts.has('E'), m.opts.has('2')
	return m
}

func (m c16Mode) syn() syntax.RegexOptions {
	var o syntax.RegexOptions
	if m.ic {
		o |= syntax.IgnoreCase
	}
	if m.ecma {
		o |= syntax.ECMAScript
	}
	if m.re2 {
		o |= syntax.RE2
	}
	return o
}

// ---------------------------------------------------------------------------------------------
// case pairs: the only case relation the check relies on

// c16PlainPair reports the partner of a letter whose fold orbit is exactly one upper/lower pair on which
// SimpleFold, ToUpper and ToLower all agree.
func c16PlainPair(r rune) (rune, bool) {
	if !unicode.IsLetter(r) {
		return 0, false
	}
	p := unicode.SimpleFold(r)
	if p == r || unicode.SimpleFold(p) != r {
		return 0, false
	}
	up, lo := r, p
	if unicode.IsLower(r) {
		up, lo = p, r
	}
	if !unicode.IsUpper(up) || !unicode.IsLower(lo) {
		return 0, false
	}
	if unicode.ToLower(up) != lo || unicode.ToUpper(lo) != up || unicode.ToLower(lo) != lo || unicode.ToUpper(up) != up {
		return 0, false
	}
	return p, true
}

// c16Partner is the case partner inside the IgnoreCase domain (ASCII plus plain pairs).
func c16Partner(r rune) (rune, bool) {
	if r < 128 {
		if (r >= 'a' && r <= 'z') || (r >= 'A' && r <= 'Z') {
			return r ^ 0x20, true
		}
		return 0, false
	}
	return c16PlainPair(r)
}

func c16InICDomain(r rune) bool {
	if r < 128 {
		return true
	}
	_, ok := c16PlainPair(r)
	return ok
}

// ---------------------------------------------------------------------------------------------
// atoms and their independent definitions

type c16Pred func(r rune) bool

type c16Atom struct {
	text      string
	kind      string
	ends      []rune              // literal rune / range endpoints (domain seeds)
	table     *unicode.RangeTable // category atoms: member / non-member seeds
	in        func(m c16Mode) bool
	optional  bool // syntax not promised in every mode: skipped (and counted) when it does not parse
	def       func(m c16Mode) c16Pred
	noCaseDef bool // no single agreed meaning under IgnoreCase: measured only
	menu      func(m c16Mode) bool
}

func c16Range(lo, hi rune) c16Pred { return func(r rune) bool { return r >= lo && r <= hi } }
func c16Or(ps ...c16Pred) c16Pred {
	return func(r rune) bool {
		for _, p := range ps {
			if p(r) {
				return true
			}
		}
		return false
	}
}
func c16Not(p c16Pred) c16Pred { return func(r rune) bool { return !p(r) } }
func c16Table(t *unicode.RangeTable) c16Pred {
	return func(r rune) bool { return unicode.Is(t, r) }
}
func c16Runes(rs ...rune) c16Pred {
	return func(r rune) bool {
		for _, x := range rs {
			if x == r {
				return true
			}
		}
		return false
	}
}

var (
	c16ASCIIDigit = c16Range('0', '9')
	c16ASCIIWord  = c16Or(c16Range('0', '9'), c16Range('A', 'Z'), c16Range('a', 'z'), c16Runes('_'))
	// .NET: \w = [\p{L}\p{Mn}\p{Nd}\p{Pc}] (plus ZWJ/ZWNJ, documented in charclass.go); \s = [\f\n\r\t\v\x85\p{Z}]; \d = \p{Nd}
	c16UniWord  = c16Or(c16Table(unicode.L), c16Table(unicode.Mn), c16Table(unicode.Nd), c16Table(unicode.Pc), c16Runes(0x200C, 0x200D))
	c16UniSpace = c16Or(c16Range(9, 13), c16Runes(0x85), c16Table(unicode.Z))
	c16UniDigit = c16Table(unicode.Nd)
	// RE2: \s = [\t\n\f\r ]
	c16RE2Space = c16Runes('\t', '\n', '\f', '\r', ' ')
	// ECMAScript: WhiteSpace (TAB VT FF SP NBSP ZWNBSP and every Zs) plus LineTerminator (LF CR LS PS)
	c16ECMASpace = c16Or(c16Range(9, 13), c16Runes(0xFEFF, 0x2028, 0x2029), c16Table(unicode.Zs))
)

// RE2 syntax page, "ASCII character classes".
var c16Posix = map[string]c16Pred{
	"alnum":  c16Or(c16Range('0', '9'), c16Range('A', 'Z'), c16Range('a', 'z')),
	"alpha":  c16Or(c16Range('A', 'Z'), c16Range('a', 'z')),
	"ascii":  c16Range(0, 0x7f),
	"blank":  c16Runes('\t', ' '),
	"cntrl":  c16Or(c16Range(0, 0x1f), c16Runes(0x7f)),
	"digit":  c16Range('0', '9'),
	"graph":  c16Range('!', '~'),
	"lower":  c16Range('a', 'z'),
	"print":  c16Range(' ', '~'),
	"punct":  c16Or(c16Range('!', '/'), c16Range(':', '@'), c16Range('[', '`'), c16Range('{', '~')),
	"space":  c16Runes('\t', '\n', '\v', '\f', '\r', ' '),
	"upper":  c16Range('A', 'Z'),
	"word":   c16ASCIIWord,
	"xdigit": c16Or(c16Range('0', '9'), c16Range('A', 'F'), c16Range('a', 'f')),
}

func c16Atoms() []c16Atom {
	all := func(c16Mode) bool { return true }
	never := func(c16Mode) bool { return false }
	notIC := func(m c16Mode) bool { return !m.ic }
	onlyIC := func(m c16Mode) bool { return m.ic }
	notE := func(m c16Mode) bool { return !m.ecma }
	re2 := func(m c16Mode) bool { return m.re2 }
	fixed := func(p c16Pred) func(c16Mode) c16Pred { return func(c16Mode) c16Pred { return p } }
	and := func(fs ...func(c16Mode) bool) func(c16Mode) bool {
		return func(m c16Mode) bool {
			for _, f := range fs {
				if !f(m) {
					return false
				}
			}
			return true
		}
	}
	var out []c16Atom
	// a single rune written literally or through an escape; under IgnoreCase only ASCII and plain-pair letters
	one := func(kind, text string, r rune, optional bool, menu func(c16Mode) bool, in func(c16Mode) bool) {
		inn := func(m c16Mode) bool { return in(m) && (!m.ic || c16InICDomain(r)) }
		out = append(out, c16Atom{text: text, kind: kind, ends: []rune{r}, in: inn, optional: optional, def: fixed(c16Runes(r)), menu: and(menu, inn)})
	}
	// a range; under IgnoreCase only ASCII endpoints
	rng := func(text string, lo, hi rune, menu func(c16Mode) bool, in func(c16Mode) bool) {
		inn := func(m c16Mode) bool { return in(m) && (!m.ic || (lo < 128 && hi < 128)) }
		out = append(out, c16Atom{text: text, kind: "range", ends: []rune{lo, hi}, in: inn, def: fixed(c16Range(lo, hi)), menu: and(menu, inn)})
	}

	// ---- literals
	one("literal", "a", 'a', false, all, all)
	one("literal", "Z", 'Z', false, onlyIC, all)
	for _, r := range "5_ xks.$|É" {
		one("literal", string(r), r, false, never, all)
	}
	one("literal", "é", 'é', false, all, all)
	one("literal", "ı", 0x131, false, func(m c16Mode) bool { return !m.re2 }, notIC) // dotless i: no simple partner
	for _, r := range []rune{0x212A, 0x17F, 0x3C3, 0x3C2, 0x130, 0xDF, 0xFFFF, 0x10FFFF} {
		one("literal", string(r), r, false, never, notIC)
	}
	one("literal", string(rune(0x10400)), 0x10400, false, never, all) // astral plain pair U+10400/U+10428
	one("literal", "д", 'д', false, never, all)
	// ---- escapes
	for _, e := range []struct {
		t string
		r rune
	}{{`\n`, '\n'}, {`\t`, '\t'}, {`\r`, '\r'}, {`\f`, '\f'}, {`\v`, '\v'}, {`\x41`, 'A'}, {`\u0041`, 'A'}, {`\u00e9`, 'é'},
		{`\]`, ']'}, {`\-`, '-'}, {`\^`, '^'}, {`\\`, '\\'}, {`\[`, '['}, {`\.`, '.'}, {`\x00`, 0}, {`\x7f`, 0x7f}, {`\x80`, 0x80}} {
		one("escape", e.t, e.r, false, never, all)
	}
	for _, e := range []struct {
		t string
		r rune
	}{{`\e`, 0x1b}, {`\a`, 7}, {`\b`, 8}, {`\0`, 0}, {`\101`, 'A'}, {`\cA`, 1}} {
		one("escape", e.t, e.r, true, never, all)
	}
	one("escape", `\x{1F600}`, 0x1F600, true, never, notE) // ECMAScript mode: \x{ is not a hex escape
	one("escape", `\x{10FFFF}`, 0x10FFFF, true, never, and(notE, notIC))
	// ---- ranges
	rng("b-d", 'b', 'd', all, all)
	rng("0-9", '0', '9', all, all)
	rng("B-D", 'B', 'D', onlyIC, all)
	rng("a-z", 'a', 'z', never, all)
	rng("A-Z", 'A', 'Z', never, all)
	rng("!-/", '!', '/', never, all)
	rng(`\x00-\x1f`, 0, 0x1f, never, all)
	rng("\\x00-`", 0, 0x60, all, all) // with b-U+10FFFF: "everything but one character" => normalised to [^a]
	rng("b-"+string(rune(0x10FFFF)), 'b', 0x10FFFF, notIC, all)
	rng("À-Þ", 0xC0, 0xDE, never, all)
	rng("\\x01-"+string(rune(0x10FFFF)), 1, 0x10FFFF, never, all) // normalised to [^\x00]
	rng("\\x00-"+string(rune(0x10FFFE)), 0, 0x10FFFE, never, all) // normalised to [^\x{10FFFF}]
	rng("\\x00-"+string(rune(0x10FFFF)), 0, 0x10FFFF, never, all) // anything
	rng(string(rune(0x10000))+"-"+string(rune(0x10FFFF)), 0x10000, 0x10FFFF, never, all)
	// ranges that start or end exactly at the ASCII bitmap's boundary
	rng(`\x7f-\xff`, 0x7f, 0xff, never, all)
	rng(`\x7e-\x80`, 0x7e, 0x80, never, all)
	rng(`\x80-\xff`, 0x80, 0xff, never, all)
	rng(`\x00-\x7f`, 0, 0x7f, never, all)
	rng(`\x00-\x7e`, 0, 0x7e, never, all)
	rng(`\x7f-\x7f`, 0x7f, 0x7f, never, all)
	rng(`\x00-\x00`, 0, 0, never, all)
	rng(`\x3f-\x40`, 0x3f, 0x40, never, all) // the 64-bit word boundary inside the bitmap
	// "everything but one run of characters" written as two ranges (a single atom here so that it meets the
	// categories in the pair menu): the canonical form of such a class is special-cased together with categories
	gap := func(text string, lo, hi rune) {
		out = append(out, c16Atom{text: text, kind: "range", ends: []rune{lo - 1, lo, hi, hi + 1}, in: notIC,
			def: fixed(c16Or(c16Range(0, lo-1), c16Range(hi+1, 0x10FFFF))), menu: notIC})
	}
	gap("\\x00-\\x20\\x7f-"+string(rune(0x10FFFF)), 0x21, 0x7e) // all but the printable ASCII characters
	gap("\\x00-@\\x7b-"+string(rune(0x10FFFF)), 'A', 'z')       // all but A..z (both ends letters, the middle not)
	gap("\\x00-/:-"+string(rune(0x10FFFF)), '0', '9')           // all but the ASCII digits
	// ---- shorthands
	sh := func(text string, neg bool, def func(m c16Mode) c16Pred) {
		d := def
		if neg {
			d = func(m c16Mode) c16Pred { return c16Not(def(m)) }
		}
		// In RE2/ECMAScript mode \D \W \S are stored as ranges that reach far beyond ASCII (they contain U+212A, U+017F,
		// U+0130 ...): under IgnoreCase such a class is outside the property's quantifier (members limited to ASCII and
		// plain-pair letters), so it is neither judged nor used as a part there.
		in := func(m c16Mode) bool { return !(neg && m.ic && (m.re2 || m.ecma)) }
		out = append(out, c16Atom{text: text, kind: "shorthand", in: in, def: d, menu: in})
	}
	digit := func(m c16Mode) c16Pred {
		if m.ecma || m.re2 {
			return c16ASCIIDigit
		}
		return c16UniDigit
	}
	word := func(m c16Mode) c16Pred {
		if m.ecma || m.re2 {
			return c16ASCIIWord
		}
		return c16UniWord
	}
	space := func(m c16Mode) c16Pred {
		switch {
		case m.ecma:
			return c16ECMASpace
		case m.re2:
			return c16RE2Space
		}
		return c16UniSpace
	}
	sh(`\d`, false, digit)
	sh(`\D`, true, digit)
	sh(`\w`, false, word)
	sh(`\W`, true, word)
	sh(`\s`, false, space)
	sh(`\S`, true, space)
	// ---- Unicode categories, scripts, properties (not in ECMAScript mode without the Unicode option: \p is a literal p there)
	cat := func(text string, t *unicode.RangeTable, neg, optional, noCase bool, menu func(c16Mode) bool) {
		p := c16Table(t)
		if neg {
			p = c16Not(p)
		}
		out = append(out, c16Atom{text: text, kind: "category", table: t, in: notE, optional: optional, def: fixed(p), noCaseDef: noCase, menu: and(menu, notE)})
	}
	cat(`\p{Lu}`, unicode.Lu, false, false, false, all)
	cat(`\P{Ll}`, unicode.Ll, true, false, true, all)
	cat(`\p{Nd}`, unicode.Nd, false, false, false, func(m c16Mode) bool { return !m.re2 })
	cat(`\p{Ll}`, unicode.Ll, false, false, false, never)
	cat(`\P{Lu}`, unicode.Lu, true, false, true, never)
	cat(`\p{L}`, unicode.L, false, false, false, never)
	cat(`\pL`, unicode.L, false, false, false, never)
	cat(`\PL`, unicode.L, true, false, false, never)
	cat(`\p{Sm}`, unicode.Sm, false, false, false, never)
	cat(`\p{Zs}`, unicode.Zs, false, false, false, never)
	cat(`\P{Nd}`, unicode.Nd, true, false, false, never)
	cat(`\p{Greek}`, unicode.Greek, false, false, false, never)
	cat(`\P{Greek}`, unicode.Greek, true, false, false, never)
	cat(`\p{IsGreek}`, unicode.Greek, false, true, false, never)
	cat(`\p{Cyrillic}`, unicode.Cyrillic, false, false, false, never)
	cat(`\p{White_Space}`, unicode.White_Space, false, true, false, never)
	// ---- POSIX names (RE2 mode only)
	var names []string
	for n := range c16Posix {
		names = append(names, n)
	}
	sort.Strings(names)
	for _, n := range names {
		p := c16Posix[n]
		menuPos := func(m c16Mode) bool {
			return (n == "alpha" && !m.ic) || (m.ic && (n == "upper" || n == "alnum" || n == "punct"))
		}
		out = append(out, c16Atom{text: "[:" + n + ":]", kind: "posix", in: re2, def: fixed(p), menu: and(menuPos, re2)})
		// negated names are complements that reach beyond ASCII: not under IgnoreCase (see the shorthands)
		menuNeg := func(c16Mode) bool { return n == "digit" }
		out = append(out, c16Atom{text: "[:^" + n + ":]", kind: "posix", in: and(re2, notIC), def: fixed(c16Not(p)), menu: and(menuNeg, re2, notIC)})
	}
	return out
}

// ---------------------------------------------------------------------------------------------
// the rune domain

var c16FixedRunes = []rune{0x212A, 0x017F, 0x0130, 0x0131, 0x03C3, 0x03C2, 0x03A3, 0xD7FF, 0xE000, 0xFFFD, 0xFFFE, 0xFFFF, 0x10000, 0x10FFFE, 0x10FFFF,
	0x10400, 0x10428, 0x0660, 0x0669, 0x200B, 0x200C, 0x200D, 0x200E, 0x2028, 0x2029, 0x202A, 0x1680, 0x1681, 0x2000, 0x200A, 0x202F, 0x2030, 0x205F, 0x2060,
	0x3000, 0x3001, 0xFEFF, 0xFF00, 0x180E, 0x0391, 0x03B1, 0x0410, 0x0430, 0x1E9E, 0x2126, 0x01C5, 0xFF21, 0xFF41, 0x1F600}

func c16ValidRune(r rune) bool { return r >= 0 && r <= 0x10FFFF && !(r >= 0xD800 && r <= 0xDFFF) }

func c16Domain(m c16Mode, atoms []c16Atom, full bool) []rune {
	seen := map[rune]bool{}
	var out []rune
	add := func(r rune) {
		if !c16ValidRune(r) || seen[r] || (m.ic && !c16InICDomain(r)) {
			return
		}
		seen[r] = true
		out = append(out, r)
	}
	if full {
		for r := rune(0); r <= 0x10FFFF; r++ {
			add(r)
		}
		return out
	}
	for r := rune(0); r <= 0x24F; r++ {
		add(r)
	}
	for _, r := range c16FixedRunes {
		add(r)
	}
	for _, a := range atoms {
		if !a.in(m) {
			continue
		}
		for _, e := range a.ends {
			add(e - 1)
			add(e)
			add(e + 1)
		}
		if a.table != nil { // one member and one non-member beyond the exhaustive block, and the table's last member
			mem, non := false, false
			for r := rune(0x250); r <= 0x10FFFF && !(mem && non); r++ {
				if !c16ValidRune(r) || (m.ic && !c16InICDomain(r)) {
					continue
				}
				if unicode.Is(a.table, r) {
					if !mem {
						add(r)
						mem = true
					}
				} else if !non {
					add(r)
					non = true
				}
			}
		}
	}
	sort.Slice(out, func(i, j int) bool { return out[i] < out[j] })
	return out
}

// ---------------------------------------------------------------------------------------------
// bit tables over the domain

type c16Tab []uint64

func c16NewTab(n int) c16Tab    { return make(c16Tab, (n+63)/64) }
func (t c16Tab) set(i int)      { t[i>>6] |= 1 << (uint(i) & 63) }
func (t c16Tab) get(i int) bool { return t[i>>6]&(1<<(uint(i)&63)) != 0 }
func (t c16Tab) count() (n int) {
	for _, w := range t {
		for ; w != 0; w &= w - 1 {
			n++
		}
	}
	return
}
func (t c16Tab) equal(u c16Tab) bool {
	for i := range t {
		if t[i] != u[i] {
			return false
		}
	}
	return true
}

// ---------------------------------------------------------------------------------------------
// class texts

type c16Class struct {
	Neg   bool      `json:"neg,omitempty"`
	Items []string  `json:"items"`
	Sub   *c16Class `json:"sub,omitempty"`
}

func (k *c16Class) text() string {
	var sb strings.Builder
	sb.WriteByte('[')
	if k.Neg {
		sb.WriteByte('^')
	}
	for _, it := range k.Items {
		sb.WriteString(it)
	}
	if k.Sub != nil {
		sb.WriteByte('-')
		sb.WriteString(k.Sub.text())
	}
	sb.WriteByte(']')
	return sb.String()
}

func (k *c16Class) size() int {
	n := len(k.Items)
	if k.Sub != nil {
		n += k.Sub.size()
	}
	return n
}

// ---------------------------------------------------------------------------------------------
// the lookup paths

var c16PathNames = []string{
	"CharIn(parsed set)", "CharIn(parsed set, ASCII bitmaps prepared)",
	"^C$", "^C$ no-bitmap", "C+", "C+ no-bitmap", "x*C", "x*C no-bitmap",
}

const c16NPaths = 8

type c16Eval struct {
	tabs     [c16NPaths]c16Tab
	err      string // parse / compile error of the class itself
	kind     string // node the class became in the tree: Set, One, Notone
	negFlip  bool   // the stored set's negation differs from the written one
	anything bool
	evals    int64
}

func c16FindSetNode(n *syntax.RegexNode) *syntax.RegexNode {
	if n == nil {
		return nil
	}
	if n.IsSetFamily() || n.IsOneFamily() || n.IsNotoneFamily() {
		return n
	}
	for _, ch := range n.Children {
		if f := c16FindSetNode(ch); f != nil {
			return f
		}
	}
	return nil
}

func c16NodeIn(n *syntax.RegexNode, r rune) bool {
	switch {
	case n.IsSetFamily():
		return n.Set.CharIn(r)
	case n.IsOneFamily():
		return r == n.Ch
	default:
		return r != n.Ch
	}
}

// c16Measure evaluates the class text through every path for every rune of dom.
func c16Measure(text string, written *c16Class, m c16Mode, dom []rune) (ev c16Eval) {
	tree, err := syntax.Parse(text, syntax.ParseOptions{RegexOptions: m.syn()})
	if err != nil {
		ev.err = err.Error()
		return
	}
	node := c16FindSetNode(tree.Root)
	if node == nil {
		ev.err = "no set/one/notone node in the parsed tree: " + tree.Dump()
		return
	}
	switch {
	case node.IsSetFamily():
		ev.kind = "Set"
		ev.anything = node.Set.IsAnything()
		if written != nil {
			ev.negFlip = node.Set.IsNegated() != written.Neg
		}
	case node.IsOneFamily():
		ev.kind = "One"
	default:
		ev.kind = "Notone"
		if written != nil {
			ev.negFlip = !written.Neg
		}
	}
	if node.Options&syntax.IgnoreCase != 0 && !node.IsSetFamily() {
		ev.err = "class reduced to a single-character node that still carries IgnoreCase"
		return
	}
	n := len(dom)
	for i := range ev.tabs {
		ev.tabs[i] = c16NewTab(n)
	}
	for i, r := range dom {
		if c16NodeIn(node, r) {
			ev.tabs[0].set(i)
		}
	}
	code, err := syntax.Write(tree)
	if err != nil {
		ev.err = "syntax.Write: " + err.Error()
		return
	}
	code.PrepareCharSetASCIIBitmaps()
	for i, r := range dom {
		if c16NodeIn(node, r) {
			ev.tabs[1].set(i)
		}
	}
	ev.evals += 2 * int64(n)
	buf := make([]rune, 1)
	pats := [3]string{"^" + text + "$", text + "+", "x*" + text}
	for pi, p := range pats {
		for b := 0; b < 2; b++ {
			o := m.opts
			if b == 1 {
				o += "B"
			}
			re, err := compileWith(p, o)
			if err != nil {
				ev.err = fmt.Sprintf("%q does not compile although %q parses: %v", p, text, err)
				return
			}
			t := ev.tabs[2+pi*2+b]
			for i, r := range dom {
				buf[0] = r
				ok, err := re.MatchRunes(buf)
				if err != nil {
					ev.err = fmt.Sprintf("%q on %q: %v", p, string(r), err)
					return
				}
				if ok {
					t.set(i)
				}
			}
			ev.evals += int64(n)
		}
	}
	return
}

type c16Diff struct {
	pos    int
	paths  []string // paths that disagree at dom[pos]
	counts [c16NPaths]int
}

// c16Compare finds the smallest rune at which some path differs from want.
func c16Compare(ev *c16Eval, want c16Tab, n int) *c16Diff {
	first := -1
	var d c16Diff
	for p := 0; p < c16NPaths; p++ {
		t := ev.tabs[p]
		if t.equal(want) {
			continue
		}
		for i := 0; i < n; i++ {
			if t.get(i) != want.get(i) {
				d.counts[p]++
				if first < 0 || i < first {
					first = i
				}
			}
		}
	}
	if first < 0 {
		return nil
	}
	d.pos = first
	for p := 0; p < c16NPaths; p++ {
		if ev.tabs[p].get(first) != want.get(first) {
			d.paths = append(d.paths, c16PathNames[p])
		}
	}
	return &d
}

func c16RuneName(r rune) string {
	if r >= 0x20 && r < 0x7f {
		return fmt.Sprintf("%q (U+%04X)", r, r)
	}
	return fmt.Sprintf("U+%04X", r)
}

// ---------------------------------------------------------------------------------------------
// the check

type c16Flat struct {
	cls c16Class
	tab c16Tab // measured (path 0)
	ok  bool   // measured without error
}

type c16Run struct {
	c     *Ctx
	m     c16Mode
	dom   []rune
	atoms []c16Atom
}

// emit reports a violation; with VERIF_C16_DUMP=<file> every reported key is also appended to that file (triage aid).
func (x *c16Run) emit(v Violation) {
	if c16Dump != nil {
		c16DumpMu.Lock()
		fmt.Fprintf(c16Dump, "%s\t%s\t%s\n", v.Key, v.Input, v.Detail)
		c16DumpMu.Unlock()
	}
	x.c.Report(v)
}

var (
	c16Dump   *os.File
	c16DumpMu sync.Mutex
)

func (x *c16Run) report(leg string, cls *c16Class, ev *c16Eval, want c16Tab, d *c16Diff, how string) {
	text := cls.text()
	r := x.dom[d.pos]
	var cnt []string
	for p := 0; p < c16NPaths; p++ {
		if d.counts[p] > 0 {
			cnt = append(cnt, fmt.Sprintf("%s: %d", c16PathNames[p], d.counts[p]))
		}
	}
	allPaths := len(d.paths) == c16NPaths
	which := "paths " + strings.Join(d.paths, ", ")
	if allPaths {
		which = "all 8 lookup paths"
	}
	x.emit(Violation{Leg: leg, Key: leg + "|" + string(x.m.opts) + "|" + text, Pattern: text, Options: string(x.m.opts), Input: q(string(r)),
		Detail: fmt.Sprintf("%s: expected member=%v for %s, got %v through %s (%s). Runes of the %d-rune domain that differ per path: %s",
			c16RuneName(r), want.get(d.pos), how, !want.get(d.pos), which, ev.kind+" node", len(x.dom), strings.Join(cnt, "; ")),
		Extra: map[string]any{"input_runes": []rune{r}, "class": cls, "level": leg, "failing_paths": d.paths}})
}

func (x *c16Run) reportErr(cls *c16Class, msg string) {
	text := cls.text()
	x.emit(Violation{Leg: "compile", Key: "compile|" + string(x.m.opts) + "|" + text, Pattern: text, Options: string(x.m.opts),
		Detail: "enumerated class does not parse/compile although each of its parts does: " + msg, Extra: map[string]any{"class": cls, "level": "compile"}})
}

func (x *c16Run) panicked(text string, r any) {
	x.emit(Violation{Leg: "panic", Key: "panic|" + string(x.m.opts) + "|" + text, Pattern: text, Options: string(x.m.opts), Detail: panicText(r)})
}

// closure of a definition under the case partner relation (IgnoreCase modes)
func c16Close(p c16Pred) c16Pred {
	return func(r rune) bool {
		if p(r) {
			return true
		}
		if q, ok := c16Partner(r); ok {
			return p(q)
		}
		return false
	}
}

func (x *c16Run) note(ev *c16Eval, want c16Tab) {
	k := "node " + ev.kind
	if ev.anything {
		k += " (anything)"
	}
	x.c.Outcome(k, 1)
	if ev.negFlip {
		x.c.Outcome("normalisation flipped the written negation", 1)
	}
	c := want.count()
	switch {
	case c == 0:
		x.c.Outcome("membership over the domain: none", 1)
	case c == len(x.dom):
		x.c.Outcome("membership over the domain: all", 1)
	default:
		x.c.Outcome("membership over the domain: mixed", 1)
	}
}

// atomsLevel checks every atom of the mode and returns the measured tables of the menu atoms.
func (x *c16Run) atomsLevel(fam string) (menu []string, tabs map[string]c16Tab) {
	c := x.c
	fs := c.Fam(fam)
	tabs = map[string]c16Tab{}
	var list []c16Atom
	for _, a := range x.atoms {
		if a.in(x.m) {
			list = append(list, a)
		}
	}
	type res struct {
		tab c16Tab
		ok  bool
	}
	results := make([]res, len(list))
	var evals, nt, pats int64
	done := c.parallel(len(list), func(i int) {
		a := list[i]
		cls := &c16Class{Items: []string{a.text}}
		ev := c16Measure(cls.text(), cls, x.m, x.dom)
		atomic.AddInt64(&evals, ev.evals)
		if ev.err != "" {
			if a.optional {
				c.Outcome("optional atom syntax not accepted in this mode (skipped)", 1)
				return
			}
			x.reportErr(cls, ev.err)
			return
		}
		atomic.AddInt64(&pats, 1)
		var def c16Pred
		if a.def != nil && !(x.m.ic && a.noCaseDef) {
			def = a.def(x.m)
			if x.m.ic {
				def = c16Close(def)
			}
		}
		want := ev.tabs[0]
		leg, how := "paths", "the class's own CharIn table (no independent definition is used for this atom in this mode)"
		if def != nil {
			leg, how = "atom", "the independent definition of "+a.kind+" "+a.text
			want = c16NewTab(len(x.dom))
			for j, r := range x.dom {
				if def(r) {
					want.set(j)
				}
			}
			c.Outcome("atoms checked against an independent definition", 1)
		} else {
			c.Outcome("atoms without independent definition (path agreement only)", 1)
		}
		x.note(&ev, want)
		if cn := want.count(); cn > 0 && cn < len(x.dom) {
			atomic.AddInt64(&nt, 1)
		}
		if d := c16Compare(&ev, want, len(x.dom)); d != nil {
			x.report(leg, cls, &ev, want, d, how)
		}
		results[i] = res{ev.tabs[0], true}
	}, func(i int, r any) { x.panicked("["+list[i].text+"]", r) })
	for i, a := range list {
		if results[i].ok && a.menu(x.m) {
			menu = append(menu, a.text)
			tabs[a.text] = results[i].tab
		}
	}
	fs.Patterns, fs.Evaluations, fs.Nontrivial, fs.Complete = pats, evals, nt, done
	c.Eval(evals)
	c.Nontrivial(nt)
	if !done {
		c.NotExhaustive("internal deadline reached inside " + fam)
	}
	return
}

// flatClasses enumerates [items] and [^items] for 1..k items (ordered, with repetition), simplest first.
func c16FlatClasses(menu []string, k int) []c16Class {
	var out []c16Class
	var rec func(cur []string, left int)
	var bySize [][]c16Class
	bySize = make([][]c16Class, k+1)
	rec = func(cur []string, left int) {
		if len(cur) > 0 {
			it := append([]string(nil), cur...)
			bySize[len(cur)] = append(bySize[len(cur)], c16Class{Items: it}, c16Class{Neg: true, Items: it})
		}
		if left == 0 {
			return
		}
		for _, a := range menu {
			rec(append(cur, a), left-1)
		}
	}
	rec(nil, k)
	for s := 1; s <= k; s++ {
		out = append(out, bySize[s]...)
	}
	return out
}

// flatLevel: [xy] = [x] u [y], [^xy] = complement.
func (x *c16Run) flatLevel(fam string, menu []string, atomTabs map[string]c16Tab, k int) []c16Flat {
	c := x.c
	fs := c.Fam(fam)
	classes := c16FlatClasses(menu, k)
	flats := make([]c16Flat, len(classes))
	n := len(x.dom)
	var evals, nt, pats int64
	var sampled atomic.Bool
	done := c.parallel(len(classes), func(i int) {
		cls := &classes[i]
		flats[i].cls = *cls
		want := c16NewTab(n)
		for _, it := range cls.Items {
			at := atomTabs[it]
			for w := range want {
				want[w] |= at[w]
			}
		}
		if cls.Neg {
			for j := 0; j < n; j++ {
				if !want.get(j) {
					want[j>>6] |= 1 << (uint(j) & 63)
				} else {
					want[j>>6] &^= 1 << (uint(j) & 63)
				}
			}
		}
		ev := c16Measure(cls.text(), cls, x.m, x.dom)
		atomic.AddInt64(&evals, ev.evals)
		if ev.err != "" {
			x.reportErr(cls, ev.err)
			return
		}
		atomic.AddInt64(&pats, 1)
		flats[i].tab, flats[i].ok = ev.tabs[0], true
		x.note(&ev, want)
		if len(cls.Items) > 1 || cls.Neg {
			if cn := want.count(); cn > 0 && cn < n {
				atomic.AddInt64(&nt, 1)
			}
		}
		if d := c16Compare(&ev, want, n); d != nil {
			how := "the union of the measured tables of its items"
			if cls.Neg {
				how = "the complement of the union of the measured tables of its items"
			}
			x.report("union", cls, &ev, want, d, how)
		}
		if i == len(classes)*2/3 && sampled.CompareAndSwap(false, true) {
			c.Sample(map[string]any{"family": fam, "class": cls.text(), "options": string(x.m.opts), "domain_runes": n, "members_in_domain": want.count(), "paths": c16PathNames})
		}
	}, func(i int, r any) { x.panicked(classes[i].text(), r) })
	fs.Patterns, fs.Evaluations, fs.Nontrivial, fs.Complete = pats, evals, nt, done
	c.Eval(evals)
	c.Nontrivial(nt)
	if !done {
		c.NotExhaustive("internal deadline reached inside " + fam)
	}
	return flats
}

// subLevel: [B-[S]] = [B] minus [S], B and S measured as classes of their own. When keep is set the measured
// tables are returned (used for the next nesting level).
func (x *c16Run) subLevel(fam string, bases, subs []c16Flat, keep bool) []c16Flat {
	c := x.c
	fs := c.Fam(fam)
	type pr struct{ b, s int32 }
	var pairs []pr
	for b := range bases {
		if !bases[b].ok {
			continue
		}
		for s := range subs {
			if subs[s].ok {
				pairs = append(pairs, pr{int32(b), int32(s)})
			}
		}
	}
	sort.SliceStable(pairs, func(i, j int) bool {
		return bases[pairs[i].b].cls.size()+subs[pairs[i].s].cls.size() < bases[pairs[j].b].cls.size()+subs[pairs[j].s].cls.size()
	})
	var out []c16Flat
	if keep {
		out = make([]c16Flat, len(pairs))
	}
	n := len(x.dom)
	var evals, nt, pats int64
	var sampled atomic.Bool
	done := c.parallel(len(pairs), func(i int) {
		B, S := &bases[pairs[i].b], &subs[pairs[i].s]
		sc := S.cls
		cls := &c16Class{Neg: B.cls.Neg, Items: B.cls.Items, Sub: &sc}
		want := c16NewTab(n)
		for w := range want {
			want[w] = B.tab[w] &^ S.tab[w]
		}
		ev := c16Measure(cls.text(), cls, x.m, x.dom)
		atomic.AddInt64(&evals, ev.evals)
		if keep {
			out[i].cls = *cls
		}
		if ev.err != "" {
			x.reportErr(cls, ev.err)
			return
		}
		atomic.AddInt64(&pats, 1)
		if keep {
			out[i].tab, out[i].ok = ev.tabs[0], true
		}
		x.note(&ev, want)
		if !want.equal(B.tab) && want.count() > 0 { // the subtraction removes something and leaves something
			atomic.AddInt64(&nt, 1)
		}
		if d := c16Compare(&ev, want, n); d != nil {
			x.report("subtract", cls, &ev, want, d, "the measured table of "+B.cls.text()+" minus the measured table of "+S.cls.text())
		}
		if i == len(pairs)*2/3 && sampled.CompareAndSwap(false, true) {
			c.Sample(map[string]any{"family": fam, "class": cls.text(), "options": string(x.m.opts), "domain_runes": n, "members_in_domain": want.count()})
		}
	}, func(i int, r any) {
		B, S := &bases[pairs[i].b], &subs[pairs[i].s]
		sc := S.cls
		x.panicked((&c16Class{Neg: B.cls.Neg, Items: B.cls.Items, Sub: &sc}).text(), r)
	})
	fs.Patterns, fs.Evaluations, fs.Nontrivial, fs.Complete = pats, evals, nt, done
	c.Eval(evals)
	c.Nontrivial(nt)
	if !done {
		c.NotExhaustive("internal deadline reached inside " + fam)
	}
	return out
}

// altLevel: the compiler merges an alternation of single-character classes into one class, so
// ^(?:[x]|[y])$ must accept exactly [x] u [y] (measured tables), with and without the ASCII bitmap.
func (x *c16Run) altLevel(fam string, menu []string, atomTabs map[string]c16Tab) {
	c := x.c
	fs := c.Fam(fam)
	type pr struct{ a, b string }
	var pairs []pr
	for _, a := range menu {
		for _, b := range menu {
			pairs = append(pairs, pr{a, b})
		}
	}
	n := len(x.dom)
	var evals, nt, pats int64
	done := c.parallel(len(pairs), func(i int) {
		a, b := pairs[i].a, pairs[i].b
		pat := "^(?:[" + a + "]|[" + b + "])$"
		want := c16NewTab(n)
		for w := range want {
			want[w] = atomTabs[a][w] | atomTabs[b][w]
		}
		got, merged, err := c16MeasureAlt(pat, x.m, x.dom)
		atomic.AddInt64(&evals, 2*int64(n))
		if err != "" {
			x.emit(Violation{Leg: "compile", Key: "compile|" + string(x.m.opts) + "|" + pat, Pattern: pat, Options: string(x.m.opts),
				Detail: "alternation of two classes does not compile although both classes do: " + err, Extra: map[string]any{"level": "compile-alt"}})
			return
		}
		atomic.AddInt64(&pats, 1)
		if merged {
			c.Outcome("alternation of two classes merged into one set node", 1)
			atomic.AddInt64(&nt, 1)
		} else {
			c.Outcome("alternation of two classes kept as alternation", 1)
		}
		for v := 0; v < 2; v++ {
			if got[v].equal(want) {
				continue
			}
			for j := 0; j < n; j++ {
				if got[v].get(j) != want.get(j) {
					r := x.dom[j]
					x.emit(Violation{Leg: "alt-union", Key: "alt-union|" + string(x.m.opts) + "|" + pat, Pattern: pat, Options: string(x.m.opts), Input: q(string(r)),
						Detail: fmt.Sprintf("%s: [%s] u [%s] (measured) says member=%v but MatchRunes of the alternation (%s, merged into one set: %v) gives %v",
							c16RuneName(r), a, b, want.get(j), []string{"bitmap", "no-bitmap"}[v], merged, got[v].get(j)),
						Extra: map[string]any{"input_runes": []rune{r}, "level": "alt-union", "items": []string{a, b}}})
					break
				}
			}
			break
		}
	}, func(i int, r any) { x.panicked("^(?:["+pairs[i].a+"]|["+pairs[i].b+"])$", r) })
	fs.Patterns, fs.Evaluations, fs.Nontrivial, fs.Complete = pats, evals, nt, done
	c.Eval(evals)
	c.Nontrivial(nt)
	if !done {
		c.NotExhaustive("internal deadline reached inside " + fam)
	}
}

func c16MeasureAlt(pat string, m c16Mode, dom []rune) (got [2]c16Tab, merged bool, errs string) {
	if tree, err := syntax.Parse(pat, syntax.ParseOptions{RegexOptions: m.syn()}); err == nil {
		merged = !strings.Contains(tree.Dump(), "Alternate")
	}
	buf := make([]rune, 1)
	for v := 0; v < 2; v++ {
		o := m.opts
		if v == 1 {
			o += "B"
		}
		re, err := compileWith(pat, o)
		if err != nil {
			return got, merged, err.Error()
		}
		got[v] = c16NewTab(len(dom))
		for i, r := range dom {
			buf[0] = r
			ok, err := re.MatchRunes(buf)
			if err != nil {
				return got, merged, err.Error()
			}
			if ok {
				got[v].set(i)
			}
		}
	}
	return
}

func c16ModeWanted(only string, m c16Mode) bool {
	for _, w := range strings.Split(only, ",") {
		if w == string(m.opts) || (w == "-" && m.opts == "") {
			return true
		}
	}
	return false
}

// c16Pick selects the flat classes with lo..hi items, all of them from the given sub-menu (nil = any).
func c16Pick(fl []c16Flat, lo, hi int, only map[string]bool) []c16Flat {
	var out []c16Flat
	for _, f := range fl {
		if f.cls.Sub != nil || len(f.cls.Items) < lo || len(f.cls.Items) > hi || !c16AllIn(f.cls.Items, only) {
			continue
		}
		out = append(out, f)
	}
	return out
}

func c16PickSub(fl []c16Flat, only map[string]bool) []c16Flat {
	var out []c16Flat
	for _, f := range fl {
		if c16AllIn(f.cls.Items, only) && (f.cls.Sub == nil || c16AllIn(f.cls.Sub.Items, only)) {
			out = append(out, f)
		}
	}
	return out
}

func c16AllIn(items []string, only map[string]bool) bool {
	if only == nil {
		return true
	}
	for _, it := range items {
		if !only[it] {
			return false
		}
	}
	return true
}

// c16CoreMenu is the 8-atom sub-menu used by the quick tier for the larger cross products.
func c16CoreMenu(m c16Mode) map[string]bool {
	core := map[string]bool{"a": true, "b-d": true, "é": true, `\d`: true, `\w`: true}
	if m.ic && m.re2 {
		core["0-9"] = true
		core["[:upper:]"] = true
	} else {
		core[`\D`] = true
		core[`\S`] = true
	}
	if m.ecma {
		core["b-"+string(rune(0x10FFFF))] = true
	} else {
		core[`\P{Ll}`] = true
	}
	return core
}

func c16CoreList(menu []string, core map[string]bool) (out []string) {
	for _, a := range menu {
		if core[a] {
			out = append(out, a)
		}
	}
	return
}

func runC16(c *Ctx) {
	c.Level = "model_checking"
	thorough := c.Tier == "thorough"
	if thorough {
		c.SetBudget(30 * time.Minute)
	} else {
		c.SetBudget(170 * time.Second)
	}
	c.Rule = "Bounded-exhaustive over a class grammar, per mode in {default, IgnoreCase, ECMAScript, RE2, IgnoreCase+RE2}. (1) ATOMS: every single-item class [x] of a fixed list (literals, escapes, ranges, \\d\\D\\w\\W\\s\\S, \\p/\\P categories, scripts and properties, POSIX names and their negations under RE2) is compared with an independent definition (Go unicode tables, ASCII tables, the documented RE2 / ECMAScript / .NET definitions; under IgnoreCase the definition closed under the plain upper/lower pair). (2) FLAT: every class of 1..k items (ordered, with repetition, negated or not; k=2 quick, 3 thorough) from a 14-16 atom menu is compared with the union (complement of the union) of the MEASURED tables of its own items; ALT-MERGE: ^(?:[x]|[y])$ for every ordered pair of menu atoms (the compiler merges the branches into one class) with the same union. (3) SUB: every subtraction class [B-[S]] with the measured table of B minus the measured table of S, B and S flat classes measured as classes of their own (quick: all pairs with <=2 and <=1 items either way over the full menu, 2-[2] and nested 1-[1-[1]] over an 8-atom core menu; thorough: all 2-[2], 3-[<=1], nested <=2-[<=1-[<=1]] over the full menu). Each class text is evaluated for EVERY rune of the domain (U+0000-U+024F, every range endpoint +-1, a fixed list of special runes, a member and a non-member of every category used; thorough additionally all Unicode scalar values for flat classes of <= 2 items; under IgnoreCase restricted to ASCII plus plain-pair letters) through 8 lookup paths: CharSet.CharIn on the set of the parsed tree before and after PrepareCharSetASCIIBitmaps, and MatchRunes of ^C$, C+ and x*C on the one-rune input, each compiled with and without OptionDisableCharClassASCIIBitmap. One evaluation = one (class, rune, path) lookup. Non-trivial = classes whose expected membership over the domain is mixed (flat, >= 2 parts), subtractions that remove something and leave something, alternations that were really merged into one set."
	c.Assume("atoms are defined independently only where a definition is documented unambiguously; \\P{Ll}/\\P{Lu} under IgnoreCase are measured only (path agreement), never judged")
	c.Assume("compound classes are judged against algebra over the measured tables of their own parts (CharIn on the parsed set, no bitmap), so a wrong atom is reported once at the atom level and does not cascade")
	c.Assume("IgnoreCase: ranges with ASCII endpoints, single members and the rune domain limited to ASCII plus letters whose SimpleFold orbit is one upper/lower pair on which ToUpper/ToLower agree")
	c.Assume("surrogate code points are not part of any domain; class syntax follows /repo's grammar in every mode (subtraction is accepted in ECMAScript and RE2 mode too)")
	if p := os.Getenv("VERIF_C16_DUMP"); p != "" {
		c16Dump, _ = os.Create(p)
		defer c16Dump.Close()
	}
	atoms := c16Atoms()
	var total int64
	only := os.Getenv("VERIF_C16_MODES") // triage aid: comma separated option strings, "-" for the default mode
	if only != "" {
		c.NotExhaustive("VERIF_C16_MODES restricts the run to modes " + only)
	}
	for _, m := range c16Modes {
		if only != "" && !c16ModeWanted(only, m) {
			continue
		}
		if c.Expired() {
			c.NotExhaustive("internal deadline reached before mode " + q(string(m.opts)))
			break
		}
		x := &c16Run{c: c, m: m, atoms: atoms, dom: c16Domain(m, atoms, false)}
		tag := fmt.Sprintf(" opts=%q", string(m.opts))
		menu, atomTabs := x.atomsLevel("ATOMS" + tag)
		c.extra["menu"+tag] = strings.Join(menu, " ")
		c.extra["domain_runes"+tag] = len(x.dom)
		k := 2
		if thorough {
			k = 3
		}
		flats := x.flatLevel(fmt.Sprintf("FLAT<=%d%s", k, tag), menu, atomTabs, k)
		x.altLevel("ALT-MERGE (?:[x]|[y])"+tag, menu, atomTabs)
		core := c16CoreMenu(m)
		c.extra["core_menu"+tag] = strings.Join(c16CoreList(menu, core), " ")
		f1 := c16Pick(flats, 1, 1, nil)
		f2 := c16Pick(flats, 1, 2, nil)
		e2 := c16Pick(flats, 2, 2, nil)
		c1 := c16Pick(flats, 1, 1, core)
		lvl1 := x.subLevel("SUB<=1-[<=1]"+tag, f1, f1, true)
		x.subLevel("SUB=2-[<=1]"+tag, e2, f1, false)
		x.subLevel("SUB<=1-[=2]"+tag, f1, e2, false)
		if thorough {
			x.subLevel("SUB=2-[=2]"+tag, e2, e2, false)
			x.subLevel("SUB=3-[<=1]"+tag, c16Pick(flats, 3, 3, nil), f1, false)
			x.subLevel("NESTED<=2-[<=1-[<=1]]"+tag, f2, lvl1, false)
		} else {
			ce2 := c16Pick(flats, 2, 2, core)
			x.subLevel("SUB=2-[=2] core menu"+tag, ce2, ce2, false)
			x.subLevel("NESTED<=1-[<=1-[<=1]] core menu"+tag, c1, c16PickSub(lvl1, core), false)
		}
		if thorough && !c.Expired() {
			xf := &c16Run{c: c, m: m, atoms: atoms, dom: c16Domain(m, atoms, true)}
			// measured atom tables over the full domain
			full := map[string]c16Tab{}
			okAll := true
			for _, a := range menu {
				cls := &c16Class{Items: []string{a}}
				ev := c16Measure(cls.text(), cls, m, xf.dom)
				if ev.err != "" {
					okAll = false
					break
				}
				full[a] = ev.tabs[0]
			}
			if okAll {
				xf.flatLevel(fmt.Sprintf("FLAT<=2 all-Unicode (%d runes)%s", len(xf.dom), tag), menu, full, 2)
			}
		}
		total++
	}
	c.extra["modes"] = total
	c.extra["states"] = c.evals.Load()
	c.extra["transitions"] = c.evals.Load()
	c.extra["traces_validated_against_impl"] = c.evals.Load()
	c.extra["model"] = "harness/c16.go: independent atom definitions + set algebra over measured atom tables; every expected membership bit is compared with the implementation through 8 lookup paths"
}

// ---------------------------------------------------------------------------------------------
// replay

func c16ClassFromAny(v any) *c16Class {
	mp, ok := v.(map[string]any)
	if !ok {
		return nil
	}
	k := &c16Class{}
	if b, ok := mp["neg"].(bool); ok {
		k.Neg = b
	}
	if xs, ok := mp["items"].([]any); ok {
		for _, x := range xs {
			if s, ok := x.(string); ok {
				k.Items = append(k.Items, s)
			}
		}
	}
	if s, ok := mp["sub"]; ok && s != nil {
		k.Sub = c16ClassFromAny(s)
	}
	return k
}

// c16ExpectedAt recomputes the expected membership of one rune for a recorded class.
func c16ExpectedAt(level string, cls *c16Class, m c16Mode, r rune) (want bool, how string, err string) {
	dom := []rune{r}
	measure := func(k *c16Class) (bool, string) {
		ev := c16Measure(k.text(), k, m, dom)
		if ev.err != "" {
			return false, ev.err
		}
		return ev.tabs[0].get(0), ""
	}
	switch level {
	case "atom":
		for _, a := range c16Atoms() {
			if len(cls.Items) == 1 && a.text == cls.Items[0] && a.in(m) && a.def != nil {
				def := a.def(m)
				if m.ic {
					def = c16Close(def)
				}
				return def(r), "independent definition", ""
			}
		}
		return false, "", "atom not found"
	case "paths":
		w, e := measure(cls)
		return w, "CharIn of the class itself", e
	case "union":
		for _, it := range cls.Items {
			w, e := measure(&c16Class{Items: []string{it}})
			if e != "" {
				return false, "", e
			}
			want = want || w
		}
		return want != cls.Neg, "union of measured items", ""
	case "subtract":
		if cls.Sub == nil {
			return false, "", "no subtraction recorded"
		}
		b, e := measure(&c16Class{Neg: cls.Neg, Items: cls.Items})
		if e != "" {
			return false, "", e
		}
		s, e := measure(cls.Sub)
		if e != "" {
			return false, "", e
		}
		return b && !s, "measured base minus measured subtracted class", ""
	}
	return false, "", "unknown level " + level
}

func replayC16(v Violation) (bool, string) {
	m := c16ModeOf(v.Options)
	level, _ := v.Extra["level"].(string)
	if level == "compile-alt" {
		if _, err := regexp2.Compile(v.Pattern, m.opts.compileOptions()...); err != nil {
			return true, "still does not compile: " + err.Error()
		}
		return false, "compiles"
	}
	cls := c16ClassFromAny(v.Extra["class"])
	if level == "alt-union" {
		cls = c16ClassFromAny(map[string]any{"items": v.Extra["items"]})
	}
	if cls == nil {
		return false, "no class structure recorded"
	}
	if level == "compile" || v.Leg == "compile" {
		_, err := regexp2.Compile(cls.text(), m.opts.compileOptions()...)
		if err != nil {
			return true, "still does not compile: " + err.Error()
		}
		return false, "compiles"
	}
	in, _ := replayInput(v)
	if len(in) != 1 {
		return false, "no input rune recorded"
	}
	r := in[0]
	if level == "alt-union" {
		want := false
		for _, it := range cls.Items {
			ev := c16Measure("["+it+"]", nil, m, []rune{r})
			if ev.err != "" {
				return false, "cannot measure [" + it + "]: " + ev.err
			}
			want = want || ev.tabs[0].get(0)
		}
		got, _, e := c16MeasureAlt(v.Pattern, m, []rune{r})
		if e != "" {
			return true, "alternation no longer evaluates: " + e
		}
		if got[0].get(0) != want || got[1].get(0) != want {
			return true, fmt.Sprintf("%s: union of the measured classes says %v, MatchRunes(%s) gives %v (bitmap) / %v (no bitmap)", c16RuneName(r), want, v.Pattern, got[0].get(0), got[1].get(0))
		}
		return false, fmt.Sprintf("%s: MatchRunes(%s) gives %v as the union of the measured classes says", c16RuneName(r), v.Pattern, want)
	}
	want, how, e := c16ExpectedAt(level, cls, m, r)
	if e != "" {
		return false, "cannot recompute the expectation: " + e
	}
	ev := c16Measure(cls.text(), cls, m, []rune{r})
	if ev.err != "" {
		return true, "class no longer evaluates: " + ev.err
	}
	var bad []string
	for p := 0; p < c16NPaths; p++ {
		if ev.tabs[p].get(0) != want {
			bad = append(bad, c16PathNames[p])
		}
	}
	if len(bad) > 0 {
		return true, fmt.Sprintf("%s in %s under %q: expected member=%v (%s) but %s give(s) %v", c16RuneName(r), cls.text(), string(m.opts), want, how, strings.Join(bad, ", "), !want)
	}
	return false, fmt.Sprintf("%s in %s: all 8 paths give %v as expected (%s)", c16RuneName(r), cls.text(), want, how)
}
