package main

// Reference model (a): a continuation-passing backtracking matcher over the pattern AST.
// It is written from the documented semantics, shares no code with /repo and is kept small:
// the C01 fragment forbids nullable loop bodies and directly nested quantifiers, so none of the
// engine's empty-iteration or repeater-multiplication rules is needed.

import "unicode"

type capList struct {
	prev       *capList
	grp        int
	start, len int
}

// env holds the options that can be toggled inline.
type env struct {
	ic, ml, sl bool
}

type specOpts struct {
	env
	rtl  bool
	re2  bool
	expl bool // ExplicitCapture (handled by numbering; kept for documentation)
}

func specOptsFrom(o optSet) specOpts {
	return specOpts{env: env{ic: o.has('i'), ml: o.has('m'), sl: o.has('s')}, rtl: o.has('R'), re2: o.has('2'), expl: o.has('n')}
}

type matcher struct {
	in     []rune
	o      specOpts
	origin int
	steps  int
	// allEnds, when non-nil, collects every end position reachable at the top level
	// (all backtracking paths) instead of stopping at the first.
	allEnds map[int]bool
}

// isWordSpec: the documented \w / \b definition: L, Mn, Nd, Pc plus ZWJ / ZWNJ.
func isWordSpec(r rune) bool {
	return unicode.In(r, unicode.L, unicode.Mn, unicode.Nd, unicode.Pc) || r == 0x200C || r == 0x200D
}

func isASCIIWord(r rune) bool {
	return r == '_' || (r >= '0' && r <= '9') || (r >= 'a' && r <= 'z') || (r >= 'A' && r <= 'Z')
}

func eqc(e env, a, b rune) bool {
	if a == b {
		return true
	}
	if e.ic {
		return unicode.ToLower(a) == unicode.ToLower(b)
	}
	return false
}

func (m *matcher) shorthand(e env, ch rune, letter rune) bool {
	var ok bool
	switch letter {
	case 'w', 'W':
		if m.o.re2 {
			ok = isASCIIWord(ch)
			if e.ic && !ok {
				ok = isASCIIWord(unicode.ToLower(ch)) || isASCIIWord(unicode.ToUpper(ch))
			}
		} else {
			ok = isWordSpec(ch)
		}
	case 'd', 'D':
		if m.o.re2 {
			ok = ch >= '0' && ch <= '9'
		} else {
			ok = unicode.Is(unicode.Nd, ch)
		}
	case 's', 'S':
		if m.o.re2 {
			ok = ch == ' ' || ch == '\t' || ch == '\n' || ch == '\f' || ch == '\r'
		} else {
			ok = ch == ' ' || (ch >= '\t' && ch <= '\r') || ch == 0x85 || unicode.In(ch, unicode.Z)
		}
	}
	if letter < 'a' {
		return !ok
	}
	return ok
}

func lastCap(c *capList, g int) *capList {
	for ; c != nil; c = c.prev {
		if c.grp == g {
			return c
		}
	}
	return nil
}

type cont func(pos int, c *capList) bool

func applyOpt(e env, on, off string) env {
	for _, ch := range on {
		switch ch {
		case 'i':
			e.ic = true
		case 'm':
			e.ml = true
		case 's':
			e.sl = true
		}
	}
	for _, ch := range off {
		switch ch {
		case 'i':
			e.ic = false
		case 'm':
			e.ml = false
		case 's':
			e.sl = false
		}
	}
	return e
}

// fwd: true = consume rightwards
func (m *matcher) m(n *Node, pos int, fwd bool, e env, c *capList, k cont) bool {
	m.steps++
	switch n.K {
	case KLit, KAny, KSet, KShort:
		var ch rune
		var np int
		if fwd {
			if pos >= len(m.in) {
				return false
			}
			ch = m.in[pos]
			np = pos + 1
		} else {
			if pos <= 0 {
				return false
			}
			ch = m.in[pos-1]
			np = pos - 1
		}
		ok := false
		switch n.K {
		case KLit:
			ok = eqc(e, ch, n.Ch)
		case KAny:
			ok = e.sl || ch != '\n'
		case KSet:
			for _, r := range n.Set {
				if eqc(e, ch, r) {
					ok = true
				}
			}
			if n.Neg {
				ok = !ok
			}
		case KShort:
			ok = m.shorthand(e, ch, n.Ch)
		}
		if !ok {
			return false
		}
		return k(np, c)
	case KAssert:
		L := len(m.in)
		ok := false
		switch n.Ch {
		case '^':
			ok = pos == 0 || (e.ml && m.in[pos-1] == '\n')
		case '$':
			if e.ml {
				ok = pos == L || m.in[pos] == '\n'
			} else if m.o.re2 {
				ok = pos == L
			} else {
				ok = pos == L || (pos == L-1 && m.in[pos] == '\n')
			}
		case 'A':
			ok = pos == 0
		case 'z':
			ok = pos == L
		case 'Z':
			// RE2 mode has no \Z of its own; the engine documents that it treats the
			// "end or before a final newline" assertion as plain end of text there.
			if m.o.re2 {
				ok = pos == L
			} else {
				ok = pos == L || (pos == L-1 && m.in[pos] == '\n')
			}
		case 'G':
			ok = pos == m.origin
		case 'b', 'B':
			a := pos > 0 && isWordSpec(m.in[pos-1])
			b := pos < L && isWordSpec(m.in[pos])
			ok = a != b
			if n.Ch == 'B' {
				ok = !ok
			}
		}
		if !ok {
			return false
		}
		return k(pos, c)
	case KEmpty:
		return k(pos, c)
	case KCat:
		return m.cat(n.Kids, pos, fwd, e, c, k)
	case KAlt:
		for _, kid := range n.Kids {
			if m.m(kid, pos, fwd, e, c, k) {
				return true
			}
		}
		return false
	case KRep:
		return m.rep(n, 0, pos, fwd, e, c, k)
	case KGroup:
		return m.m(n.Kids[0], pos, fwd, e, c, k)
	case KOpt:
		return m.m(n.Kids[0], pos, fwd, applyOpt(e, n.On, n.Off), c, k)
	case KCap:
		if n.Cap == 0 { // ExplicitCapture: plain group
			return m.m(n.Kids[0], pos, fwd, e, c, k)
		}
		return m.m(n.Kids[0], pos, fwd, e, c, func(p int, c2 *capList) bool {
			s, en := pos, p
			if en < s {
				s, en = en, s
			}
			return k(p, &capList{prev: c2, grp: n.Cap, start: s, len: en - s})
		})
	case KAtomic:
		var rp int
		var rc *capList
		if !m.m(n.Kids[0], pos, fwd, e, c, func(p int, c2 *capList) bool { rp, rc = p, c2; return true }) {
			return false
		}
		return k(rp, rc)
	case KLook:
		var rc *capList
		ok := m.m(n.Kids[0], pos, n.Ahead, e, c, func(p int, c2 *capList) bool { rc = c2; return true })
		if n.Negate {
			if ok {
				return false
			}
			return k(pos, c)
		}
		if !ok {
			return false
		}
		return k(pos, rc)
	case KRef:
		lc := lastCap(c, n.Cap)
		if lc == nil {
			return false
		}
		if fwd {
			if pos+lc.len > len(m.in) {
				return false
			}
			for i := 0; i < lc.len; i++ {
				if !eqc(e, m.in[lc.start+i], m.in[pos+i]) {
					return false
				}
			}
			return k(pos+lc.len, c)
		}
		if pos-lc.len < 0 {
			return false
		}
		for i := 0; i < lc.len; i++ {
			if !eqc(e, m.in[lc.start+i], m.in[pos-lc.len+i]) {
				return false
			}
		}
		return k(pos-lc.len, c)
	case KCondRef:
		if lastCap(c, n.Cap) != nil {
			return m.m(n.Kids[0], pos, fwd, e, c, k)
		}
		return m.m(n.Kids[1], pos, fwd, e, c, k)
	case KCondExp:
		var rc *capList
		if m.m(n.Kids[0], pos, true, e, c, func(p int, c2 *capList) bool { rc = c2; return true }) {
			return m.m(n.Kids[1], pos, fwd, e, rc, k)
		}
		return m.m(n.Kids[2], pos, fwd, e, c, k)
	}
	panic("bad kind")
}

func (m *matcher) cat(kids []*Node, pos int, fwd bool, e env, c *capList, k cont) bool {
	if len(kids) == 0 {
		return k(pos, c)
	}
	if fwd {
		return m.m(kids[0], pos, fwd, e, c, func(p int, c2 *capList) bool { return m.cat(kids[1:], p, fwd, e, c2, k) })
	}
	last := len(kids) - 1
	return m.m(kids[last], pos, fwd, e, c, func(p int, c2 *capList) bool { return m.cat(kids[:last], p, fwd, e, c2, k) })
}

func (m *matcher) rep(n *Node, count, pos int, fwd bool, e env, c *capList, k cont) bool {
	canMore := n.Max == -1 || count < n.Max
	tryMore := func() bool {
		if !canMore {
			return false
		}
		return m.m(n.Kids[0], pos, fwd, e, c, func(p int, c2 *capList) bool {
			if p == pos {
				return false // bodies are non-nullable in the fragment; guards the model against looping
			}
			return m.rep(n, count+1, p, fwd, e, c2, k)
		})
	}
	if count < n.Min {
		return tryMore()
	}
	if n.Lazy {
		if k(pos, c) {
			return true
		}
		return tryMore()
	}
	if tryMore() {
		return true
	}
	return k(pos, c)
}

// specAttempt runs the model at one position. ngroups = number of groups incl. group 0.
func specAttempt(root *Node, in []rune, origin, p int, o specOpts, ngroups int) mres {
	m := &matcher{in: in, o: o, origin: origin}
	var res mres
	m.m(root, p, !o.rtl, o.env, nil, func(e int, c *capList) bool {
		s := p
		if e < s {
			s, e = e, s
		}
		res = mres{ok: true, idx: s, ln: e - s, caps: make([][][2]int, ngroups)}
		res.caps[0] = [][2]int{{s, e - s}}
		for ; c != nil; c = c.prev {
			res.caps[c.grp] = append([][2]int{{c.start, c.len}}, res.caps[c.grp]...)
		}
		return true
	})
	return res
}

// specFind is the leftmost (rightmost-first for RightToLeft) priority-ordered search.
func specFind(root *Node, in []rune, start int, o specOpts, ngroups int) mres {
	if !o.rtl {
		for p := start; p <= len(in); p++ {
			if r := specAttempt(root, in, start, p, o, ngroups); r.ok {
				return r
			}
		}
	} else {
		for p := start; p >= 0; p-- {
			if r := specAttempt(root, in, start, p, o, ngroups); r.ok {
				return r
			}
		}
	}
	return mres{}
}

// specAllLengths returns the set of match lengths over all backtracking paths at position p.
func specAllLengths(root *Node, in []rune, origin, p int, o specOpts) map[int]bool {
	m := &matcher{in: in, o: o, origin: origin}
	out := map[int]bool{}
	m.m(root, p, !o.rtl, o.env, nil, func(e int, c *capList) bool {
		d := e - p
		if d < 0 {
			d = -d
		}
		out[d] = true
		return false
	})
	return out
}
