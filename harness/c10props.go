package main

// C10, family PROP: every Unicode category / script / property name the class parser can be asked for —
// all string literals of syntax/unicode_alias_tables.go (property names, aliases, values, Name=Value
// spellings), the keys of Go's unicode.Categories / Scripts / Properties / CategoryAliases, and every
// Name=Value pair built from the harvested names — in the spellings \p{N} \P{N} [\p{N}] [^\p{N}x]
// [\p{N}-[a]] \p{N}+ under five option sets, each compiled and driven through the level-S call menu.

import (
	"go/ast"
	"go/parser"
	"go/token"
	"path/filepath"
	"sort"
	"strconv"
	"strings"
	"unicode"
)

func c10PropNames() []string {
	seen := map[string]bool{}
	var names []string
	add := func(s string) {
		if s == "" || len(s) > 40 || strings.ContainsAny(s, "{}\\[]()") || seen[s] {
			return
		}
		seen[s] = true
		names = append(names, s)
	}
	fset := token.NewFileSet()
	var props, values []string
	if f, err := parser.ParseFile(fset, filepath.Join(repoDir, "syntax/unicode_alias_tables.go"), nil, 0); err == nil {
		ast.Inspect(f, func(n ast.Node) bool {
			if lit, ok := n.(*ast.BasicLit); ok && lit.Kind == token.STRING {
				if s, err := strconv.Unquote(lit.Value); err == nil {
					add(s)
					if i := strings.IndexByte(s, '='); i > 0 {
						props = append(props, s[:i])
						values = append(values, s[i+1:])
						add(s[:i])
						add(s[i+1:])
					}
				}
			}
			return true
		})
	}
	for k := range unicode.Categories {
		add(k)
	}
	for k := range unicode.Scripts {
		add(k)
	}
	for k := range unicode.Properties {
		add(k)
	}
	for k, v := range unicode.CategoryAliases {
		add(k)
		add(v)
	}
	// every property alias crossed with a few values (valid and invalid pairs)
	base := append([]string{}, names...)
	sort.Strings(base)
	short := []string{"gcb", "sb", "wb", "emoji", "math", "Grapheme_Cluster_Break", "Sentence_Break", "Word_Break", "sc", "gc", "L", "Greek"}
	vals := []string{"Extend", "Lower", "ALetter", "CR", "Yes", "", "zz", "L"}
	for _, p := range short {
		add(p)
		for _, v := range vals {
			add(p + "=" + v)
		}
	}
	_ = props
	_ = values
	sort.Strings(names)
	return names
}

func c10RunProps(c *Ctx, sh *c10Shared, thorough bool) {
	names := c10PropNames()
	forms := []string{`\p{%s}`, `\P{%s}`, `[\p{%s}]`, `[^\p{%s}x]`, `[\p{%s}-[a]]`, `\p{%s}+`}
	opts := []optSet{"", "i", "2", "E", "U"}
	if thorough {
		opts = append(opts, "iE", "i2", "R", "G", "B")
	}
	inputs := []string{"", "a", "A", "\n", "é", "\U0001F600", "\xff", "á"}
	type item struct {
		pat string
		o   optSet
	}
	var items []item
	for _, n := range names {
		for _, f := range forms {
			for _, o := range opts {
				items = append(items, item{strings.Replace(f, "%s", n, 1), o})
			}
		}
	}
	before := sh.snapshot()
	done := c.parallel(len(items), func(i int) {
		for _, v := range c10One(sh, items[i].pat, items[i].o, c10LvlS, inputs, nil, 0) {
			c10Report(c, v)
		}
	}, func(i int, r any) {
		c10Report(c, Violation{Leg: "panic:harness", Key: c10Key("panic:harness", items[i].o, items[i].pat), Pattern: items[i].pat, Options: string(items[i].o), Detail: panicText(r)})
	})
	sh.famUpdate(c, "PROP "+strconv.Itoa(len(names))+" category/script/property names x 6 spellings x "+strconv.Itoa(len(opts))+" option sets S", before, done, "")
	c.extra["property_names"] = len(names)
}

// C10, family TRUNC: every proper prefix (cut at every byte) of every harvested corpus pattern and of every token of
// the TOK alphabet pair — a pattern that stops in the middle of a construct is what the parser's look-ahead has to
// survive. Compile (+ MustCompile's documented panic) under five option sets.
func c10RunTrunc(c *Ctx, sh *c10Shared, thorough bool) {
	seen := map[string]bool{}
	var pats []string
	add := func(s string) {
		if len(s) > 0 && len(s) <= 120 && !seen[s] {
			seen[s] = true
			pats = append(pats, s)
		}
	}
	for _, p := range corpusEverything() {
		if len(p.Src) > 120 {
			continue
		}
		for i := 1; i < len(p.Src); i++ {
			add(p.Src[:i])
		}
	}
	for _, a := range c10Tokens {
		for _, b := range c10Tokens {
			t := a + b
			for i := 1; i <= len(t); i++ {
				add(t[:i])
			}
		}
	}
	sort.Strings(pats)
	opts := []optSet{"", "2", "E", "x", "R"}
	if thorough {
		opts = append(opts, "i", "n", "U", "EU", "G")
	}
	type item struct {
		pat string
		o   optSet
	}
	items := make([]item, 0, len(pats)*len(opts))
	for _, p := range pats {
		for _, o := range opts {
			items = append(items, item{p, o})
		}
	}
	before := sh.snapshot()
	done := c.parallel(len(items), func(i int) {
		for _, v := range c10One(sh, items[i].pat, items[i].o, c10LvlS, []string{"", "a"}, nil, 0) {
			c10Report(c, v)
		}
	}, func(i int, r any) {
		c10Report(c, Violation{Leg: "panic:harness", Key: c10Key("panic:harness", items[i].o, items[i].pat), Pattern: items[i].pat, Options: string(items[i].o), Detail: panicText(r)})
	})
	sh.famUpdate(c, "TRUNC "+strconv.Itoa(len(pats))+" truncated patterns x "+strconv.Itoa(len(opts))+" option sets S", before, done, "")
}
