package main

// C10: arbitrary patterns and inputs never panic or hang the API.
//
// Bounded-exhaustive exploration (no sampling):
//
//   TOK     every string of exactly k tokens (k = 0..4, 5 thorough) over nested token alphabets
//           A (82 tokens: k <= 3; k = 4 compile-only, thorough) > B (52: k = 4) > C (32: k = 4 with the
//           call menu in the quick tier, k = 5 thorough); the tokens cover the parser's surface (groups,
//           look-arounds, named/balancing/conditional groups, inline options, classes, escapes,
//           quantifiers, raw newline / NUL / astral rune / invalid byte); see the tables in runC10;
//   CORPUS  every harvested pattern (1,883 parser fuzz-corpus files, rust/re2/pcre corpora, every pattern
//           literal of the repository's tests);
//   DEEP    a fixed list of deeply nested / very long patterns (stack depth of the recursive tree passes);
//
// each compiled under an enumerated list of option sets (all 2^9 regex-option subsets for the short
// strings and the corpus, a covering list - every option alone, every pair, chosen triples, compile
// options - beyond, 1 to 8 sets for the longest strings), and every successfully compiled Regexp driven
// through a menu of API calls (level "compile" = Compile only):
//
//   level S  every scan driver once per input (bool/find/find-all/replace/evaluator/split/adapter),
//            plus the out-of-range start offsets, accessors on every returned match, getters,
//            Escape/Unescape;
//   level F  every exported method x every argument of the finite menus (startAt and count in
//            {-2,-1,0,1,len,len+1,len+7}, n in {-2,-1,0,1}), every replacement string of <= 2 $-tokens,
//            every adapter method, MustCompile / UnmarshalText / compat.Compile.
//
// Inputs: every byte string of <= L units over {a, "\n", NUL, U+1F600, byte 0xFF}.
//
// CORPUS and DEEP run in child processes (re-exec of this binary, one worker each, address-space
// rlimit and lowered maximum stack) so that an unrecoverable runtime fatal error is attributed to the
// case that caused it; a death is confirmed in a fresh child with the default stack limit before it is
// reported.

import (
	"bufio"
	"encoding/hex"
	"encoding/json"
	"errors"
	"fmt"
	"io"
	"os"
	"os/exec"
	"runtime"
	"runtime/debug"
	"sort"
	"strconv"
	"strings"
	"sync"
	"sync/atomic"
	"syscall"
	"time"
	"unicode/utf8"

	regexp2 "github.com/dlclark/regexp2/v2"
	"github.com/dlclark/regexp2/v2/compat"
	"github.com/dlclark/regexp2/v2/syntax"
)

func init() {
	register("C10", runC10)
	replayers["C10"] = replayC10
}

// ---------------------------------------------------------------------------------------------
// alphabets and menus

// c10Tokens: the token alphabet A, most structural first. B = the first c10SizeB, C = the first c10SizeC.
var c10Tokens = []string{
	// C (32): the structural core
	"a", "(", ")", "|", "*", "?", "+", "[", "]", "^", "$", ".", `\`, "{", "}", "-",
	"(?:", "(?=", "(?<=", "(?<n>", "(?(1)", `\1`, `\b`, `\d`, "{2}", "{1,2}", "\n", "(?i)", "(?<-n>", ",", "1", "\xff",
	// B (+20 = 52)
	"(?!", "(?<!", "(?>", "(?'n'", "(?<a-n>", "(?P<n>", "(?P=n)", "(?(n)", "(?(?=a)", "(?-i:", "(?x)", "(?#", "[^", "-[",
	`\k<n>`, `\W`, `\p{L}`, "#", " ", "*?",
	// A (+30 = 82)
	"b", "\x00", "\U0001F600", "[:alpha:]", `\P{`, `\pL`, `\B`, `\A`, `\z`, `\Z`, `\G`, `\k'`, `\10`, `\0`, `\x`, `\x{`,
	`\u00`, `\cA`, `\c`, `\e`, `\Q`, `\E`, "{2,}", "{2,1}", "{99999999999}", "{1000}", "<", ">", "=", "!",
}

const (
	c10SizeC = 32
	c10SizeB = 52
)

// input units (bytes strings): a, newline, NUL, astral rune, invalid byte.
var c10InputUnits = []string{"a", "\n", "\x00", "\U0001F600", "\xff"}

// replacement tokens ($-grammar surface incl. malformed forms and an invalid byte).
var c10ReplTokens = []string{"$1", "${n}", "$&", "$`", "$'", "$+", "$_", "$$", "$", "${", "}", "$99999999999", "1", "\xff"}

// the composite replacement used by the argument legs
const c10Composite = "[$1|${n}|$&|$`|$'|$+|$_|$$|${1}|$0]"

var (
	c10NMenu     = []int{-2, -1, 0, 1}
	c10NameMenu  = []string{"", "0", "1", "n", "a", "zz", "-1", "99999999999999999999", "\xff"}
	c10NumMenu   = []int{-1, 0, 1, 2, 3, 10, 99, 1 << 31}
	c10RegexOpts = "imsnxRE2U"
)

// argument menu for startAt / count over an input of the given length
func c10ArgMenu(n int) []int {
	out := []int{-2, -1, 0, 1}
	for _, v := range []int{n, n + 1, n + 7} {
		dup := false
		for _, o := range out {
			if o == v {
				dup = true
			}
		}
		if !dup {
			out = append(out, v)
		}
	}
	return out
}

// c10Covering: none, every regex option alone, every pair, chosen triples, compile options
// (G code-gen analysis, B no ASCII bitmap, O capture order, L stack limit 64, T MatchTimeout 24h,
// C caches and pools off, c caches and pools unbounded).
func c10Covering() []optSet {
	out := []optSet{""}
	for i := 0; i < len(c10RegexOpts); i++ {
		out = append(out, optSet(c10RegexOpts[i:i+1]))
	}
	for i := 0; i < len(c10RegexOpts); i++ {
		for j := i + 1; j < len(c10RegexOpts); j++ {
			out = append(out, optSet(string(c10RegexOpts[i])+string(c10RegexOpts[j])))
		}
	}
	out = append(out, "mx2", "sEU", "mxR", "ixR", "nxE", "msR", "imsnx", "imsnxRE2U",
		"G", "B", "O", "GBO", "L", "T", "C", "c", "RG", "2G", "EO", "nO", "iB", "RL", "xGO", "E2L", "RT", "iGB", "RC", "Lc")
	return out
}

// the short list used for the longest token strings
var c10Few = []optSet{"", "2", "E", "R", "ix", "EU", "n", "GBO"}
var c10Fewer = []optSet{"", "2", "E", "Rx"}

const (
	c10LvlCompile = 0
	c10LvlS       = 1
	c10LvlF       = 2
)

// c10SlowPair: IgnoreCase together with ECMAScript or RE2 makes the parser case-expand a negated ASCII
// class over all of Unicode rune by rune (20-30 ms per class: legitimate, but 1000x the usual compile).
// The quick tier leaves these (pattern, option set) pairs out of the all-512-subsets sweeps; the thorough
// tier includes them.
func c10SlowPair(p string, o optSet) bool {
	if !o.has('i') || !(o.has('E') || o.has('2')) {
		return false
	}
	for _, t := range []string{".", "[^", `\W`, `\D`, `\S`, `\P`} {
		if strings.Contains(p, t) {
			return true
		}
	}
	return false
}

func c10Compile(p string, o optSet) (*regexp2.Regexp, error) {
	re, err := regexp2.Compile(p, c10Options(o)...)
	if err == nil && o.has('T') {
		re.MatchTimeout = 24 * time.Hour
	}
	return re, err
}

func c10Options(o optSet) []regexp2.CompileOption {
	opts := o.compileOptions()
	if o.has('L') {
		opts = append(opts, regexp2.OptionMaxBacktrackingStackSize(64))
	}
	if o.has('C') { // every cache and pool off
		opts = append(opts, regexp2.OptionMaxCachedRuneBufferLength(0), regexp2.OptionMaxCachedReplaceBufferLength(0),
			regexp2.OptionMaxCachedReplacerDataEntries(0), regexp2.OptionMaxCachedReplacerDataBytes(0))
	}
	if o.has('c') { // every cache and pool unbounded
		opts = append(opts, regexp2.OptionMaxCachedRuneBufferLength(-1), regexp2.OptionMaxCachedReplaceBufferLength(-1),
			regexp2.OptionMaxCachedReplacerDataEntries(-1), regexp2.OptionMaxCachedReplacerDataBytes(-1))
	}
	return opts
}

// ---------------------------------------------------------------------------------------------
// statistics (shared by all workers of one process)

type c10Stats struct {
	Pairs      int64 // (pattern, option set) pairs compiled
	CompileOK  int64
	CompileErr int64
	Calls      int64 // API calls evaluated (Compile included)
	Nontrivial int64 // calls that found a match / changed the text / returned a permitted error
	ErrLarge   int64
	ErrAlign   int64
	ErrCount   int64
	ErrStack   int64
	ErrTimeout int64
	ErrRepl    int64
	ErrUnesc   int64
	ErrCodes   map[string]int64 // distinct parse error codes
	Matches    int64
	Skipped    int64 // calls skipped by a circuit breaker
	SlowPairs  int64 // (pattern, option set) pairs left to the thorough tier (c10SlowPair)
}

type c10Shared struct {
	s     c10Stats
	codes sync.Map // distinct parse error codes
	mu    sync.Mutex
	hangs map[string]int // leg -> hangs seen (circuit breaker)
	tripS atomic.Bool    // FindStringMatchStartingAt: skip out-of-range offsets
	tripR atomic.Bool    // FindRunesMatchStartingAt: skip out-of-range offsets
	nhang atomic.Int64   // non-terminating calls seen
	abort atomic.Bool    // too many of them: stop enumerating (the run fails and is marked not exhaustive)
}

func newC10Shared() *c10Shared {
	return &c10Shared{hangs: map[string]int{}, s: c10Stats{ErrCodes: map[string]int64{}}}
}

const c10GCPercent = 250

const c10HangBreaker = 48 // per StartingAt method: then its out-of-range offsets are skipped
const c10HangAbort = 400  // in total: then the enumeration stops (every hang costs a full step budget)

func (sh *c10Shared) noteHang(leg string) {
	if sh.nhang.Add(1) >= c10HangAbort {
		sh.abort.Store(true)
	}
	sh.mu.Lock()
	sh.hangs[leg]++
	if sh.hangs[leg] >= c10HangBreaker {
		switch leg {
		case "hang:FindStringMatchStartingAt":
			sh.tripS.Store(true)
		case "hang:FindRunesMatchStartingAt":
			sh.tripR.Store(true)
		}
	}
	sh.mu.Unlock()
}

// report forwards a violation and counts violating (pattern, option set) keys per leg.
func c10Report(c *Ctx, v Violation) {
	c10LegMu.Lock()
	if !c10LegSeen[v.Key] {
		c10LegSeen[v.Key] = true
		c10LegCount[v.Leg]++
	}
	c10LegMu.Unlock()
	c.Report(v)
}

var (
	c10LegMu    sync.Mutex
	c10LegSeen  = map[string]bool{}
	c10LegCount = map[string]int64{}
)

func (sh *c10Shared) errCode(code string) {
	if _, ok := sh.codes.Load(code); !ok {
		sh.codes.Store(code, true)
	}
}

func (a *c10Stats) add(b *c10Stats) {
	a.Pairs += b.Pairs
	a.CompileOK += b.CompileOK
	a.CompileErr += b.CompileErr
	a.Calls += b.Calls
	a.Nontrivial += b.Nontrivial
	a.ErrLarge += b.ErrLarge
	a.ErrAlign += b.ErrAlign
	a.ErrCount += b.ErrCount
	a.ErrStack += b.ErrStack
	a.ErrTimeout += b.ErrTimeout
	a.ErrRepl += b.ErrRepl
	a.ErrUnesc += b.ErrUnesc
	a.Matches += b.Matches
	a.Skipped += b.Skipped
	a.SlowPairs += b.SlowPairs
	if a.ErrCodes == nil {
		a.ErrCodes = map[string]int64{}
	}
	for k, v := range b.ErrCodes {
		a.ErrCodes[k] += v
	}
}

func (sh *c10Shared) snapshot() c10Stats {
	sh.mu.Lock()
	defer sh.mu.Unlock()
	s := c10Stats{
		Pairs: atomic.LoadInt64(&sh.s.Pairs), CompileOK: atomic.LoadInt64(&sh.s.CompileOK), CompileErr: atomic.LoadInt64(&sh.s.CompileErr),
		Calls: atomic.LoadInt64(&sh.s.Calls), Nontrivial: atomic.LoadInt64(&sh.s.Nontrivial),
		ErrLarge: atomic.LoadInt64(&sh.s.ErrLarge), ErrAlign: atomic.LoadInt64(&sh.s.ErrAlign), ErrCount: atomic.LoadInt64(&sh.s.ErrCount),
		ErrStack: atomic.LoadInt64(&sh.s.ErrStack), ErrTimeout: atomic.LoadInt64(&sh.s.ErrTimeout), ErrRepl: atomic.LoadInt64(&sh.s.ErrRepl),
		ErrUnesc: atomic.LoadInt64(&sh.s.ErrUnesc), Matches: atomic.LoadInt64(&sh.s.Matches), Skipped: atomic.LoadInt64(&sh.s.Skipped), SlowPairs: atomic.LoadInt64(&sh.s.SlowPairs),
		ErrCodes: map[string]int64{},
	}
	sh.codes.Range(func(k, _ any) bool {
		s.ErrCodes[k.(string)] = 1
		return true
	})
	return s
}

// ---------------------------------------------------------------------------------------------
// one (pattern, option set) under test

type c10Case struct {
	sh    *c10Shared
	pat   string
	opts  optSet
	re    *regexp2.Regexp
	cre   *compat.Regexp
	dirty bool // a panic unwound through the Regexp: use a fresh one for the next call
	fails []Violation
	legs  map[string]bool
	// per-case counters, flushed once
	calls, nontriv, matches int64
}

// argument facts that justify a documented argument error
const (
	c10ArgLarge  = 1 << iota // startAt > len
	c10ArgAlign              // startAt inside a rune
	c10ArgCount              // count < -1
	c10ArgSyntax             // a *syntax.Error is a legitimate outcome (pattern / replacement / escape text)
)

const (
	c10MsgLarge = "startAt must be less than the length of the input string"
	c10MsgAlign = "startAt must align to the start of a valid rune in the input string"
	c10MsgCount = "count too small"
)

func (k *c10Case) fail(leg, input, detail string, extra map[string]any) {
	if k.legs == nil {
		k.legs = map[string]bool{}
	}
	if k.legs[leg] {
		return
	}
	k.legs[leg] = true
	if extra == nil {
		extra = map[string]any{}
	}
	if len(k.pat) <= 4096 {
		extra["pattern_hex"] = hex.EncodeToString([]byte(k.pat))
	}
	extra["input_hex"] = hex.EncodeToString([]byte(input))
	k.fails = append(k.fails, Violation{Leg: leg, Key: c10Key(leg, k.opts, k.pat), Pattern: k.pat, Options: string(k.opts),
		Input: q(input), Detail: detail, Extra: extra})
}

// c10Key: leg|options|pattern; a pattern that is not valid UTF-8 (or is long) cannot be written into
// known_findings.json as it is and is given in hex / by hash instead.
func c10Key(leg string, o optSet, pat string) string {
	if len(pat) > 512 {
		return fmt.Sprintf("%s|%s|long:%d:%x", leg, string(o), len(pat), c10Hash(pat))
	}
	if !utf8.ValidString(pat) {
		return leg + "|" + string(o) + "|hex:" + hex.EncodeToString([]byte(pat))
	}
	return leg + "|" + string(o) + "|" + pat
}

func c10Hash(s string) uint64 {
	h := uint64(14695981039346656037)
	for i := 0; i < len(s); i++ {
		h ^= uint64(s[i])
		h *= 1099511628211
	}
	return h
}

// classify a returned error (or an error used as the adapter's panic value).
// allowed = bit set of argument facts that hold for this call.
func (k *c10Case) checkErr(method, input, args string, err error, allowed int) {
	if err == nil {
		return
	}
	k.nontriv++
	msg := err.Error()
	var se *syntax.Error
	switch {
	case errors.Is(err, regexp2.ErrBacktrackingStackLimit):
		atomic.AddInt64(&k.sh.s.ErrStack, 1)
	case strings.HasPrefix(msg, "match timeout after"):
		atomic.AddInt64(&k.sh.s.ErrTimeout, 1)
	case msg == c10MsgLarge:
		atomic.AddInt64(&k.sh.s.ErrLarge, 1)
		if allowed&c10ArgLarge == 0 {
			k.fail("argerr:"+method, input, fmt.Sprintf("%s(%s) returned %q although startAt is not beyond the input", method, args, msg), nil)
		}
	case msg == c10MsgAlign:
		atomic.AddInt64(&k.sh.s.ErrAlign, 1)
		if allowed&c10ArgAlign == 0 {
			k.fail("argerr:"+method, input, fmt.Sprintf("%s(%s) returned %q although startAt is on a rune boundary (or not a byte offset of the input)", method, args, msg), nil)
		}
	case msg == c10MsgCount:
		atomic.AddInt64(&k.sh.s.ErrCount, 1)
		if allowed&c10ArgCount == 0 {
			k.fail("argerr:"+method, input, fmt.Sprintf("%s(%s) returned %q although count >= -1", method, args, msg), nil)
		}
	case errors.As(err, &se):
		if allowed&c10ArgSyntax == 0 {
			k.fail("error:"+method, input, fmt.Sprintf("%s(%s) returned a parse error from a call that parses nothing: %s", method, args, msg), nil)
		} else if method == "Replace" {
			atomic.AddInt64(&k.sh.s.ErrRepl, 1)
		}
	default:
		k.fail("error:"+method, input, fmt.Sprintf("%s(%s) returned an error that is neither a parse error, a timeout, the stack limit nor a documented argument error: %T %q", method, args, err, msg), nil)
	}
}

// do runs one API call under recover. f returns (hit, err): hit = the call found something.
// adapter = the call goes through package compat, whose methods panic with the engine's error.
func (k *c10Case) do(method, input string, args func() string, allowed int, adapter bool, f func() (bool, error)) {
	if k.dirty {
		k.refresh()
	}
	k.calls++
	defer func() {
		r := recover()
		if r == nil {
			return
		}
		k.dirty = true
		a := ""
		if args != nil {
			a = args()
		}
		if b, ok := r.(regexp2.VerifStepBudgetExceeded); ok {
			k.sh.noteHang("hang:" + method)
			k.fail("hang:"+method, input, fmt.Sprintf("%s(%s) exceeded the step budget (%d steps in one scan of an input of at most a few runes): non-termination", method, a, b.Steps), map[string]any{"args": a})
			return
		}
		if ap, ok := r.(c10AccessorPanic); ok {
			k.fail("panic:accessors", input, fmt.Sprintf("an accessor (String/Runes/ByteRange/Groups/Captures/GroupByName/GroupByNumber) of the match returned by %s(%s): %s", method, a, panicText(ap.v)), map[string]any{"args": a, "method": method})
			return
		}
		if e, ok := r.(error); ok && adapter {
			// the adapter may panic with the engine's error value
			if _, isRT := e.(runtime.Error); !isRT {
				k.checkErr(method, input, a, e, allowed)
				return
			}
		}
		k.fail("panic:"+method, input, fmt.Sprintf("%s(%s): %s", method, a, panicText(r)), map[string]any{"args": a})
	}()
	hit, err := f()
	if hit {
		k.nontriv++
		k.matches++
	}
	if err != nil {
		a := ""
		if args != nil {
			a = args()
		}
		k.checkErr(method, input, a, err, allowed)
	}
}

func (k *c10Case) refresh() {
	k.dirty = false
	re, err := c10Compile(k.pat, k.opts)
	if err == nil {
		k.re = re
		k.cre = compat.Wrap(re)
	}
}

func (k *c10Case) flush() {
	atomic.AddInt64(&k.sh.s.Calls, k.calls)
	atomic.AddInt64(&k.sh.s.Nontrivial, k.nontriv)
	atomic.AddInt64(&k.sh.s.Matches, k.matches)
}

// c10AccessorPanic marks a panic raised by an accessor of a returned match (not by the call that returned it).
type c10AccessorPanic struct{ v any }

// sweep touches every accessor of a match.
func c10Sweep(m *regexp2.Match) {
	if m == nil {
		return
	}
	defer func() {
		if r := recover(); r != nil {
			panic(c10AccessorPanic{r})
		}
	}()
	_ = m.String()
	_ = m.Runes()
	m.ByteRange()
	n := m.GroupCount()
	gs := m.Groups()
	for i := range gs {
		g := &gs[i]
		_ = g.String()
		_ = g.Runes()
		g.ByteRange()
		for j := range g.Captures {
			cp := &g.Captures[j]
			_ = cp.String()
			_ = cp.Runes()
			cp.ByteRange()
		}
	}
	for _, num := range c10NumMenu {
		if g := m.GroupByNumber(num); g != nil {
			_ = g.String()
			g.ByteRange()
		}
	}
	if g := m.GroupByNumber(n); g != nil {
		_ = g.String()
	}
	if g := m.GroupByNumber(n - 1); g != nil {
		_ = g.String()
	}
	for _, name := range c10NameMenu {
		if g := m.GroupByName(name); g != nil {
			_ = g.String()
			g.ByteRange()
		}
	}
	for i := range m.Captures {
		_ = m.Captures[i].String()
	}
}

// chain follows FindNextMatch, bounded by len+2, sweeping every match.
func (k *c10Case) chain(first *regexp2.Match, err error, nrunes int) (bool, error) {
	if err != nil {
		return false, err
	}
	hit := first != nil
	steps := 0
	for m := first; m != nil; {
		c10Sweep(m)
		steps++
		if steps > nrunes+2 {
			return hit, fmt.Errorf("c10: FindNextMatch chain longer than len+2")
		}
		m, err = k.re.FindNextMatch(m)
		if err != nil {
			return hit, err
		}
	}
	return hit, nil
}

func c10Boundary(s string, at int) bool {
	if at == 0 || at == len(s) {
		return true
	}
	for i := range s {
		if i == at {
			return true
		}
	}
	return false
}

func c10StartFacts(s string, st int) int {
	if st > len(s) {
		return c10ArgLarge
	}
	if st >= 0 && !c10Boundary(s, st) {
		return c10ArgAlign
	}
	return 0
}

// getters: everything that does not take an input.
func (k *c10Case) getters(lvl int) {
	k.do("getters", "", nil, 0, false, func() (bool, error) {
		re := k.re
		_ = re.String()
		_ = re.RightToLeft()
		_ = re.Debug()
		names := re.GetGroupNames()
		nums := re.GetGroupNumbers()
		for _, n := range nums {
			_ = re.GroupNameFromNumber(n)
		}
		for _, n := range c10NumMenu {
			_ = re.GroupNameFromNumber(n)
		}
		_ = re.GroupNameFromNumber(len(nums))
		for _, n := range names {
			_ = re.GroupNumberFromName(n)
		}
		for _, n := range c10NameMenu {
			_ = re.GroupNumberFromName(n)
		}
		if b, err := re.MarshalText(); err != nil || string(b) != k.pat {
			return false, fmt.Errorf("c10: MarshalText returned (%q, %v)", b, err)
		}
		_ = k.cre.String()
		if k.cre.Unwrap() != re {
			return false, fmt.Errorf("c10: compat Unwrap returned another Regexp")
		}
		return false, nil
	})
	k.escapes(k.pat)
	if lvl < c10LvlF {
		return
	}
	opts := c10Options(k.opts)
	k.do("MustCompile", "", nil, 0, false, func() (bool, error) {
		if regexp2.MustCompile(k.pat, opts...) == nil {
			return false, fmt.Errorf("c10: MustCompile returned nil")
		}
		return false, nil
	})
	k.do("compat.Compile", "", nil, c10ArgSyntax, false, func() (bool, error) {
		cr, err := compat.Compile(k.pat, opts...)
		if err == nil && cr == nil {
			return false, fmt.Errorf("c10: compat.Compile returned nil, nil")
		}
		return false, err
	})
	k.do("compat.MustCompile", "", nil, 0, false, func() (bool, error) {
		if compat.MustCompile(k.pat, opts...) == nil {
			return false, fmt.Errorf("c10: compat.MustCompile returned nil")
		}
		return false, nil
	})
	k.do("UnmarshalText", "", nil, c10ArgSyntax, false, func() (bool, error) {
		var re regexp2.Regexp
		err := re.UnmarshalText([]byte(k.pat))
		if err == nil {
			_, err = re.MatchString("a")
		}
		return false, err
	})
}

func (k *c10Case) escapes(text string) {
	k.do("Escape", text, nil, 0, false, func() (bool, error) {
		e := regexp2.Escape(text)
		_ = syntax.Escape(text)
		_, err := regexp2.Unescape(e)
		if err != nil {
			// Escape output is always well formed for Unescape
			return false, fmt.Errorf("c10: Unescape(Escape(text)) failed: %v", err)
		}
		return false, nil
	})
	k.do("Unescape", text, nil, c10ArgSyntax, false, func() (bool, error) {
		_, err := regexp2.Unescape(text)
		if err != nil {
			atomic.AddInt64(&k.sh.s.ErrUnesc, 1)
			var se *syntax.Error
			if !errors.As(err, &se) {
				return false, fmt.Errorf("c10: Unescape error is not a *syntax.Error: %T %v", err, err)
			}
			k.nontriv++
			return false, nil
		}
		return false, nil
	})
}

// levelS: every scan driver once on this input.
func (k *c10Case) levelS(s string) {
	r := []rune(s)
	n := len(r)
	k.do("MatchString", s, nil, 0, false, func() (bool, error) { return k.re.MatchString(s) })
	k.do("MatchRunes", s, nil, 0, false, func() (bool, error) { return k.re.MatchRunes(r) })
	k.do("FindStringMatch", s, nil, 0, false, func() (bool, error) {
		m, err := k.re.FindStringMatch(s)
		return k.chain(m, err, n)
	})
	k.do("FindRunesMatch", s, nil, 0, false, func() (bool, error) {
		m, err := k.re.FindRunesMatch(r)
		c10Sweep(m)
		return m != nil, err
	})
	k.startingAt(s, r, len(s)+1, n+1)
	k.do("FindAllStringIndex", s, nil, 0, false, func() (bool, error) {
		x, err := k.re.FindAllStringIndex(s, -1)
		return len(x) > 0, err
	})
	k.do("FindAllRunesIndex", s, nil, 0, false, func() (bool, error) {
		x, err := k.re.FindAllRunesIndex(r, 1)
		return len(x) > 0, err
	})
	k.replace(s, c10Composite, -1, -1)
	k.replaceFunc(s, -1, -1)
	k.split(s, -1)
	k.do("compat.FindAllStringSubmatchIndex", s, nil, 0, true, func() (bool, error) {
		return len(k.cre.FindAllStringSubmatchIndex(s, -1)) > 0, nil
	})
	k.do("compat.FindAllSubmatch", s, nil, 0, true, func() (bool, error) {
		return len(k.cre.FindAllSubmatch([]byte(s), -1)) > 0, nil
	})
	k.do("compat.FindReaderSubmatchIndex", s, nil, 0, true, func() (bool, error) {
		return k.cre.FindReaderSubmatchIndex(strings.NewReader(s)) != nil, nil
	})
}

func (k *c10Case) startingAt(s string, r []rune, stS, stR int) {
	if !k.sh.tripS.Load() || stS <= len(s) {
		k.do("FindStringMatchStartingAt", s, func() string { return fmt.Sprintf("startAt=%d", stS) }, c10StartFacts(s, stS), false, func() (bool, error) {
			m, err := k.re.FindStringMatchStartingAt(s, stS)
			c10Sweep(m)
			if m != nil {
				m2, err2 := k.re.FindNextMatch(m)
				c10Sweep(m2)
				return true, err2
			}
			return false, err
		})
	} else {
		atomic.AddInt64(&k.sh.s.Skipped, 1)
	}
	if !k.sh.tripR.Load() || stR <= len(r) {
		allowed := 0
		if stR > len(r) {
			allowed = c10ArgLarge
		}
		k.do("FindRunesMatchStartingAt", s, func() string { return fmt.Sprintf("startAt=%d (rune input of length %d)", stR, len(r)) }, allowed, false, func() (bool, error) {
			m, err := k.re.FindRunesMatchStartingAt(r, stR)
			c10Sweep(m)
			if m != nil {
				m2, err2 := k.re.FindNextMatch(m)
				c10Sweep(m2)
				return true, err2
			}
			return false, err
		})
	} else {
		atomic.AddInt64(&k.sh.s.Skipped, 1)
	}
}

func (k *c10Case) replace(s, repl string, st, cnt int) {
	allowed := c10StartFacts(s, st) | c10ArgSyntax
	if cnt < -1 {
		allowed |= c10ArgCount
	}
	k.do("Replace", s, func() string { return fmt.Sprintf("replacement=%q startAt=%d count=%d", repl, st, cnt) }, allowed, false, func() (bool, error) {
		out, err := k.re.Replace(s, repl, st, cnt)
		return err == nil && out != s, err
	})
}

func (k *c10Case) replaceFunc(s string, st, cnt int) {
	allowed := c10StartFacts(s, st)
	if cnt < -1 {
		allowed |= c10ArgCount
	}
	k.do("ReplaceFunc", s, func() string { return fmt.Sprintf("startAt=%d count=%d", st, cnt) }, allowed, false, func() (bool, error) {
		calls := 0
		out, err := k.re.ReplaceFunc(s, func(m regexp2.Match) string {
			calls++
			c10Sweep(&m)
			return "<" + m.String() + ">"
		}, st, cnt)
		_ = out
		return calls > 0, err
	})
}

func (k *c10Case) split(s string, cnt int) {
	allowed := 0
	if cnt < -1 {
		allowed = c10ArgCount
	}
	k.do("Split", s, func() string { return fmt.Sprintf("count=%d", cnt) }, allowed, false, func() (bool, error) {
		parts, err := k.re.Split(s, cnt)
		return len(parts) > 1, err
	})
}

// levelF: every method x every argument of the menus on this input. replAll: also every replacement string.
func (k *c10Case) levelF(s string, repls []string) {
	r := []rune(s)
	b := []byte(s)
	n := len(r)
	k.do("MatchString", s, nil, 0, false, func() (bool, error) { return k.re.MatchString(s) })
	k.do("MatchRunes", s, nil, 0, false, func() (bool, error) { return k.re.MatchRunes(r) })
	k.do("FindStringMatch", s, nil, 0, false, func() (bool, error) {
		m, err := k.re.FindStringMatch(s)
		return k.chain(m, err, n)
	})
	k.do("FindRunesMatch", s, nil, 0, false, func() (bool, error) {
		m, err := k.re.FindRunesMatch(r)
		return k.chain(m, err, n)
	})
	k.do("FindNextMatch(nil)", s, nil, 0, false, func() (bool, error) {
		m, err := k.re.FindNextMatch(nil)
		if m != nil {
			return false, fmt.Errorf("c10: FindNextMatch(nil) returned a match")
		}
		return false, err
	})
	bm, rm := c10ArgMenu(len(s)), c10ArgMenu(n)
	for i := range bm {
		k.startingAt(s, r, bm[i], rm[i%len(rm)])
	}
	for i := len(bm); i < len(rm); i++ {
		k.startingAt(s, r, bm[i%len(bm)], rm[i])
	}
	for _, nn := range c10NMenu {
		nn := nn
		k.do("FindAllStringIndex", s, func() string { return fmt.Sprintf("n=%d", nn) }, 0, false, func() (bool, error) {
			x, err := k.re.FindAllStringIndex(s, nn)
			return len(x) > 0, err
		})
		k.do("FindAllRunesIndex", s, func() string { return fmt.Sprintf("n=%d", nn) }, 0, false, func() (bool, error) {
			x, err := k.re.FindAllRunesIndex(r, nn)
			return len(x) > 0, err
		})
	}
	for _, st := range bm {
		for _, cnt := range bm {
			k.replace(s, c10Composite, st, cnt)
			k.replace(s, "", st, cnt)
			k.replaceFunc(s, st, cnt)
		}
	}
	for _, rp := range repls {
		k.replace(s, rp, -1, -1)
	}
	for _, cnt := range bm {
		k.split(s, cnt)
	}
	k.escapes(s)
	// adapter: every method
	ad := func(name string, f func() bool) {
		k.do("compat."+name, s, nil, 0, true, func() (bool, error) { return f(), nil })
	}
	ad("Match", func() bool { return k.cre.Match(b) })
	ad("MatchString", func() bool { return k.cre.MatchString(s) })
	ad("MatchReader", func() bool { return k.cre.MatchReader(strings.NewReader(s)) })
	ad("Find", func() bool { return k.cre.Find(b) != nil })
	ad("FindIndex", func() bool { return k.cre.FindIndex(b) != nil })
	ad("FindReaderIndex", func() bool { return k.cre.FindReaderIndex(strings.NewReader(s)) != nil })
	ad("FindReaderSubmatchIndex", func() bool { return k.cre.FindReaderSubmatchIndex(strings.NewReader(s)) != nil })
	ad("FindString", func() bool { return k.cre.FindString(s) != "" })
	ad("FindStringIndex", func() bool { return k.cre.FindStringIndex(s) != nil })
	ad("FindStringSubmatch", func() bool { return k.cre.FindStringSubmatch(s) != nil })
	ad("FindStringSubmatchIndex", func() bool { return k.cre.FindStringSubmatchIndex(s) != nil })
	ad("FindSubmatch", func() bool { return k.cre.FindSubmatch(b) != nil })
	ad("FindSubmatchIndex", func() bool { return k.cre.FindSubmatchIndex(b) != nil })
	for _, nn := range c10NMenu {
		nn := nn
		adn := func(name string, f func() bool) {
			k.do("compat."+name, s, func() string { return fmt.Sprintf("n=%d", nn) }, 0, true, func() (bool, error) { return f(), nil })
		}
		adn("FindAll", func() bool { return len(k.cre.FindAll(b, nn)) > 0 })
		adn("FindAllIndex", func() bool { return len(k.cre.FindAllIndex(b, nn)) > 0 })
		adn("FindAllString", func() bool { return len(k.cre.FindAllString(s, nn)) > 0 })
		adn("FindAllStringIndex", func() bool { return len(k.cre.FindAllStringIndex(s, nn)) > 0 })
		adn("FindAllStringSubmatch", func() bool { return len(k.cre.FindAllStringSubmatch(s, nn)) > 0 })
		adn("FindAllStringSubmatchIndex", func() bool { return len(k.cre.FindAllStringSubmatchIndex(s, nn)) > 0 })
		adn("FindAllSubmatch", func() bool { return len(k.cre.FindAllSubmatch(b, nn)) > 0 })
		adn("FindAllSubmatchIndex", func() bool { return len(k.cre.FindAllSubmatchIndex(b, nn)) > 0 })
	}
}

// c10One compiles pat under o and drives the menu of the given level over the inputs.
// It returns the violations of this (pattern, option set).
func c10One(sh *c10Shared, pat string, o optSet, lvl int, inputs []string, repls []string, replInputs int) []Violation {
	k := &c10Case{sh: sh, pat: pat, opts: o}
	defer k.flush()
	atomic.AddInt64(&sh.s.Pairs, 1)
	var re *regexp2.Regexp
	var cerr error
	k.do("Compile", "", nil, c10ArgSyntax, false, func() (bool, error) {
		var err error
		re, err = c10Compile(pat, o)
		cerr = err
		if err != nil {
			var se *syntax.Error
			if !errors.As(err, &se) {
				return false, fmt.Errorf("c10: Compile error is not a *syntax.Error: %T %v", err, err)
			}
			sh.errCode(string(se.Code))
			return false, nil
		}
		if re == nil {
			return false, fmt.Errorf("c10: Compile returned nil, nil")
		}
		return false, nil
	})
	k.dirty = false
	if cerr != nil || re == nil {
		if len(k.fails) == 0 {
			atomic.AddInt64(&sh.s.CompileErr, 1)
			k.nontriv++
		}
		if cerr != nil && lvl >= c10LvlS {
			// MustCompile panics with exactly this error
			k.calls++
			func() {
				defer func() {
					r := recover()
					if r == nil {
						k.fail("mustcompile", "", "MustCompile returned normally although Compile reports "+cerr.Error(), nil)
						return
					}
					if s, ok := r.(string); !ok || !strings.Contains(s, cerr.Error()) {
						k.fail("mustcompile", "", fmt.Sprintf("MustCompile panicked with %T %v, which does not carry the parse error %q", r, r, cerr.Error()), nil)
					}
				}()
				regexp2.MustCompile(pat, c10Options(o)...)
			}()
		}
		return k.fails
	}
	atomic.AddInt64(&sh.s.CompileOK, 1)
	if lvl == c10LvlCompile {
		return k.fails
	}
	k.re, k.cre = re, compat.Wrap(re)
	k.getters(lvl)
	for _, in := range inputs {
		if lvl == c10LvlS {
			k.levelS(in)
			continue
		}
		var rp []string
		if len(in) == 0 || len([]rune(in)) <= replInputs {
			rp = repls
		}
		k.levelF(in, rp)
	}
	return k.fails
}

// ---------------------------------------------------------------------------------------------
// TOK jobs (in-process)

type c10Job struct {
	name   string
	alpha  []string
	k      int
	opts   []optSet
	lvl    int
	L      int // inputs: every string of <= L units
	replL  int // level F: every replacement on inputs of <= replL runes
	optTag string
	noSlow bool // leave c10SlowPair pairs out (quick tier, 512-subset sweeps)
}

func c10InputTag(lvl, L int) string {
	switch {
	case lvl == c10LvlCompile:
		return "no inputs"
	case L == -2:
		return "inputs {empty, a, 0xFF}"
	case L < 0:
		return "inputs {empty, all units}"
	}
	return fmt.Sprintf("inputs L<=%d", L)
}

func c10LevelName(l int) string { return [...]string{"compile", "S", "F"}[l] }

func c10Pow(a, k int) int {
	n := 1
	for i := 0; i < k; i++ {
		n *= a
	}
	return n
}

func c10TokString(alpha []string, k, idx int) string {
	var sb strings.Builder
	var parts [8]int
	for i := k - 1; i >= 0; i-- {
		parts[i] = idx % len(alpha)
		idx /= len(alpha)
	}
	for i := 0; i < k; i++ {
		sb.WriteString(alpha[parts[i]])
	}
	return sb.String()
}

// c10Inputs: every string of <= L units; L = -1 is the two-element list {empty, one string holding every unit}.
func c10Inputs(L int) []string {
	if L < 0 {
		return []string{"", strings.Join(c10InputUnits, "")}
	}
	return allByteStrings(c10InputUnits, L)
}

func c10CPU() float64 {
	var ru syscall.Rusage
	syscall.Getrusage(syscall.RUSAGE_SELF, &ru)
	return float64(ru.Utime.Sec+ru.Stime.Sec) + float64(ru.Utime.Usec+ru.Stime.Usec)/1e6
}

func c10Repls() []string { return allByteStrings(c10ReplTokens, 2) }

func (sh *c10Shared) famUpdate(c *Ctx, name string, before c10Stats, complete bool, note string) {
	after := sh.snapshot()
	fs := c.Fam(name)
	fs.Patterns = after.Pairs - before.Pairs
	fs.Evaluations = after.Calls - before.Calls
	fs.Nontrivial = after.Nontrivial - before.Nontrivial
	fs.Complete = complete
	fs.Note = fmt.Sprintf("compiled=%d parse-errors=%d %s", after.CompileOK-before.CompileOK, after.CompileErr-before.CompileErr, note)
	if d := after.SlowPairs - before.SlowPairs; d > 0 {
		fs.Note += fmt.Sprintf(" slow-pairs-left-to-thorough=%d", d)
	}
}

func c10RunTok(c *Ctx, sh *c10Shared, jb c10Job) {
	name := fmt.Sprintf("TOK k=%d |alphabet|=%d opts=%s level=%s %s", jb.k, len(jb.alpha), jb.optTag, c10LevelName(jb.lvl), c10InputTag(jb.lvl, jb.L))
	if jb.noSlow {
		name += " minus slow pairs"
	}
	if c.Expired() || sh.abort.Load() {
		c.NotExhaustive("internal deadline reached (or too many hangs) before " + name)
		return
	}
	t0 := time.Now()
	cpu0 := c10CPU()
	before := sh.snapshot()
	inputs := c10Inputs(jb.L)
	repls := c10Repls()
	n := c10Pow(len(jb.alpha), jb.k)
	no := len(jb.opts)
	done := c.parallel(n*no, func(i int) {
		if sh.abort.Load() {
			return
		}
		pat := c10TokString(jb.alpha, jb.k, i/no)
		if jb.noSlow && c10SlowPair(pat, jb.opts[i%no]) {
			atomic.AddInt64(&sh.s.SlowPairs, 1)
			return
		}
		for _, v := range c10One(sh, pat, jb.opts[i%no], jb.lvl, inputs, repls, jb.replL) {
			c10Report(c, v)
		}
	}, func(i int, r any) {
		pat := c10TokString(jb.alpha, jb.k, i/no)
		c.Report(Violation{Leg: "panic:harness", Key: "panic:harness||" + pat, Pattern: pat, Detail: panicText(r), Extra: map[string]any{"pattern_hex": hex.EncodeToString([]byte(pat))}})
	})
	if sh.abort.Load() {
		done = false
		c.NotExhaustive(fmt.Sprintf("%s: stopped after %d non-terminating calls", name, sh.nhang.Load()))
	}
	sh.famUpdate(c, name, before, done, fmt.Sprintf("strings=%d option-sets=%d inputs=%d wall=%.1fs cpu=%.0fs", n, len(jb.opts), len(inputs), time.Since(t0).Seconds(), c10CPU()-cpu0))
	if !done {
		c.NotExhaustive("internal deadline reached inside " + name)
	}
	if os.Getenv("VERIF_C10_PROGRESS") != "" {
		fmt.Fprintf(os.Stderr, "%s: %.1fs cpu=%.0fs\n", name, time.Since(t0).Seconds(), c10CPU()-cpu0)
	}
}

// ---------------------------------------------------------------------------------------------
// CORPUS / DEEP (child processes)

type c10Item struct {
	Src  string
	Name string
}

var c10DeepSizes = []int{64, 1024, 4096}
var c10DeepSizesThorough = []int{64, 1024, 4096, 16384}

// nested loops make the match quadratic in the nesting depth (each level retries its body once):
// they are nested at most this deep so that a scan stays far below c10DeepBudget
const c10DeepLoopMax = 1024
const c10DeepBudget = 2_000_000_000

func c10DeepItems() []c10Item         { return c10DeepItemsOf(c10DeepSizes) }
func c10DeepItemsThorough() []c10Item { return c10DeepItemsOf(c10DeepSizesThorough) }

// c10DeepItemsOf: nesting / length stressors for the recursive passes over the tree.
func c10DeepItemsOf(sizes []int) []c10Item {
	var out []c10Item
	rep := strings.Repeat
	for _, n := range sizes {
		add := func(name, s string) { out = append(out, c10Item{Src: s, Name: fmt.Sprintf("%s x%d", name, n)}) }
		add("((..a..))", rep("(", n)+"a"+rep(")", n))
		add("(?:(?:..a..))", rep("(?:", n)+"a"+rep(")", n))
		add("(a(a(..)))", rep("(a", n)+rep(")", n))
		add("(?:a|(?:a|..))", rep("(?:a|", n)+"b"+rep(")", n))
		add("(?=(?=..a..))", rep("(?=", n)+"a"+rep(")", n))
		add("(?<=(?<=..a..))", rep("(?<=", n)+"a"+rep(")", n))
		add("(?>(?>..a..))", rep("(?>", n)+"a"+rep(")", n))
		if n <= c10DeepLoopMax {
			add("(?:..a..)*)*", rep("(?:", n)+"a"+rep(")*", n))
			add("(..a..)+)+", rep("(", n)+"a"+rep(")+", n))
			add("(?:..a..)?)?", rep("(?:", n)+"a"+rep(")?", n))
		}
		add("[a-[a-[..]]]", rep("[a-", n)+"[a]"+rep("]", n))
		add("a|a|a|..", rep("a|", n)+"a")
		add("aaaa..", rep("a", n))
		add("a?a?a?..", rep("a?", n))
		add("[ab][ab]..", rep("[ab]", n))
		add("(a)(a)(a)..", rep("(a)", n))
		add("(?(?=a)(?(?=a)..|b)|b)", rep("(?(?=a)", n)+"a"+rep("|b)", n))
		add("((((unclosed", rep("(", n))
		add("[[[[unclosed", rep("[a-", n))
		add("\\1\\1..", "(a)"+rep(`\1`, n))
		add("(?i)(?i)..", rep("(?i)", n)+"a")
		add("(?<n>..(?<n>a)..)", rep("(?<n>", n)+"a"+rep(")", n))
	}
	return out
}

func c10CorpusItems() []c10Item {
	var out []c10Item
	for _, p := range corpusEverything() {
		out = append(out, c10Item{Src: p.Src, Name: p.Fam})
	}
	return out
}

// the child job table (indexable from the environment)
type c10ChildJob struct {
	name   string
	items  func() []c10Item
	opts   []optSet
	optTag string
	lvl    int
	L      int
	replL  int
	extra  bool  // inputs also over the pattern's own first letters
	noSlow bool  // leave c10SlowPair pairs out
	budget int64 // step budget per scan (0 = the default)
	lang   bool  // inputs = the pattern-derived set of lang.go (witnesses, their prefixes and one-edit neighbours)
}

func c10ChildJobs(thorough bool) []c10ChildJob {
	all := subsets(c10RegexOpts)
	cov := c10Covering()
	jobs := []c10ChildJob{
		{name: "DEEP", items: c10DeepItems, opts: c10Fewer, optTag: "4 sets", lvl: c10LvlS, L: -2, budget: c10DeepBudget},
		{name: "CORPUS", items: c10CorpusItems, opts: all, optTag: "all 512 regex-option subsets", lvl: c10LvlCompile, noSlow: true},
		{name: "CORPUS", items: c10CorpusItems, opts: cov, optTag: fmt.Sprintf("covering %d", len(cov)), lvl: c10LvlS, L: 1, extra: true},
		{name: "CORPUS", items: c10CorpusItems, opts: c10Fewer, optTag: "4 sets", lvl: c10LvlF, L: 1, replL: 0, extra: true},
		{name: "CORPUS pattern-derived inputs", items: c10CorpusItems, opts: c10Fewer[:2], optTag: "2 sets (none, RE2)", lvl: c10LvlS, L: 0, lang: true},
	}
	if thorough {
		jobs[0].items = c10DeepItemsThorough
		jobs[1].lvl, jobs[1].L, jobs[1].extra, jobs[1].noSlow = c10LvlS, 1, true, false
		jobs[2].L = 2
		jobs[3].opts, jobs[3].optTag, jobs[3].replL = cov, fmt.Sprintf("covering %d", len(cov)), 1
	}
	return jobs
}

func c10ItemInputs(it c10Item, L int, extra bool) []string {
	if L == -2 {
		return []string{"", "a", "\xff"}
	}
	units := append([]string{}, c10InputUnits...)
	if extra {
		cnt := 0
		for _, r := range it.Src {
			if (r >= 'b' && r <= 'z') || (r >= 'A' && r <= 'Z') || (r >= '0' && r <= '9') || r > 0x7f && r != 0xFFFD {
				u := string(r)
				dup := false
				for _, x := range units {
					if x == u {
						dup = true
					}
				}
				if !dup {
					units = append(units, u)
					cnt++
					if cnt == 2 {
						break
					}
				}
			}
		}
	}
	return allByteStrings(units, L)
}

type c10ChildSpec struct {
	Job      int    `json:"job"`
	Shard    int    `json:"shard"`
	N        int    `json:"n"`
	FromPair int    `json:"from_pair"` // pair index = item*len(opts)+opt
	Single   bool   `json:"single"`
	MaxStack int    `json:"max_stack"`
	ASLimit  uint64 `json:"as_limit"`
	Thorough bool   `json:"thorough"`
	Budget   int64  `json:"budget"`
	Deadline int64  `json:"deadline_unix"`
}

//go:noinline
func c10SelfTestRecurse(d, max int) int {
	var pad [128]int64
	pad[d%128] = int64(d)
	if max > 0 && d >= max {
		return int(pad[d%128])
	}
	return c10SelfTestRecurse(d+1, max) + int(pad[(d+1)%128])
}

type c10ChildResult struct {
	Stats      c10Stats    `json:"stats"`
	Violations []Violation `json:"violations"`
	Done       bool        `json:"done"`
	Items      int         `json:"items"`
}

const c10ChildEnv = "VERIF_C10_CHILD"

// c10ChildMain runs one shard of one child job and exits. Protocol on stdout: "B <item> <opt>" before
// each (item, option set), "R <json>" once at the end.
func c10ChildMain(spec c10ChildSpec) {
	if spec.ASLimit > 0 {
		lim := syscall.Rlimit{Cur: spec.ASLimit, Max: spec.ASLimit}
		_ = syscall.Setrlimit(syscall.RLIMIT_AS, &lim)
	}
	if spec.MaxStack > 0 {
		debug.SetMaxStack(spec.MaxStack)
	}
	// a huge find-all limit is only tried here, in a child: a fatal out-of-memory error cannot be recovered
	c10NMenu = append(c10NMenu, 1<<40)
	jobs := c10ChildJobs(spec.Thorough)
	jb := jobs[spec.Job]
	if jb.budget > 0 {
		regexp2.VerifSetStepBudget(jb.budget)
	} else if spec.Budget > 0 {
		regexp2.VerifSetStepBudget(spec.Budget)
	}
	items := jb.items()
	sh := newC10Shared()
	res := c10ChildResult{}
	repls := c10Repls()
	out := os.Stdout
	done := true
	var viol []Violation
	seen := map[string]bool{}
	no := len(jb.opts)
	lastItem := -1
	var inputs []string
	// self-test of the isolation (development aid): VERIF_C10_TESTCRASH="<pair>:<depth>" recurses <depth>
	// frames of ~1 KB at that pair (depth 0 = without end)
	crashAt, crashDepth := -1, 0
	if t := os.Getenv("VERIF_C10_TESTCRASH"); t != "" {
		fmt.Sscanf(t, "%d:%d", &crashAt, &crashDepth)
	}
	for p := spec.FromPair; p < len(items)*no; p++ {
		if p%spec.N != spec.Shard && !spec.Single {
			continue
		}
		i, oi := p/no, p%no
		it, o := items[i], jb.opts[oi]
		if jb.noSlow && c10SlowPair(it.Src, o) {
			atomic.AddInt64(&sh.s.SlowPairs, 1)
			continue
		}
		if i != lastItem {
			inputs = c10ItemInputs(it, jb.L, jb.extra)
			lastItem = i
			res.Items++
		}
		if jb.lang {
			// short and medium inputs in which the pattern's own tokens occur (find modes keyed on literals are
			// otherwise never entered): witnesses of the pattern as parsed under this option set, their prefixes
			// and one-edit neighbours
			inputs = nil
			if utf8.ValidString(it.Src) && len(it.Src) <= 300 {
				li, _, _ := langInputs(it.Src, o)
				for k, in := range li {
					if k >= 200 {
						break
					}
					inputs = append(inputs, string(in))
				}
			}
			if len(inputs) == 0 {
				inputs = []string{""}
			}
		}
		if (spec.Deadline > 0 && time.Now().Unix() > spec.Deadline) || sh.abort.Load() {
			done = false
			break
		}
		fmt.Fprintf(out, "B %d\n", p)
		if crashAt == p {
			c10SelfTestRecurse(0, crashDepth)
		}
		for _, v := range c10One(sh, it.Src, o, jb.lvl, inputs, repls, jb.replL) {
			if !seen[v.Key] && len(viol) < 400 {
				seen[v.Key] = true
				if len(v.Pattern) > 200 {
					v.Pattern = v.Pattern[:200] + "...(" + it.Name + ")"
				}
				v.Extra["item"] = it.Name
				viol = append(viol, v)
			}
		}
		if spec.Single {
			break
		}
	}
	res.Stats = sh.snapshot()
	res.Violations = viol
	res.Done = done
	b, _ := json.Marshal(res)
	fmt.Fprintf(out, "R %s\n", b)
	os.Exit(0)
}

// c10RunChild runs one child to its end (or death). It returns the result (nil on death) and the last marker.
func c10RunChild(spec c10ChildSpec, watchdog time.Duration) (res *c10ChildResult, last int, stderrTail string, state string) {
	last = -1
	sb, _ := json.Marshal(spec)
	cmd := exec.Command(os.Args[0], "C10")
	cmd.Env = append(os.Environ(), c10ChildEnv+"="+string(sb), "GOMAXPROCS=2", "GOTRACEBACK=single")
	if os.Getenv("GOGC") == "" {
		cmd.Env = append(cmd.Env, "GOGC="+strconv.Itoa(c10GCPercent))
	}
	stdout, err := cmd.StdoutPipe()
	if err != nil {
		return nil, last, err.Error(), "spawn"
	}
	var errBuf c10Tail
	cmd.Stderr = &errBuf
	if err := cmd.Start(); err != nil {
		return nil, last, err.Error(), "spawn"
	}
	var lastBeat atomic.Int64
	lastBeat.Store(time.Now().UnixNano())
	killed := atomic.Bool{}
	stop := make(chan struct{})
	go func() {
		t := time.NewTicker(2 * time.Second)
		defer t.Stop()
		for {
			select {
			case <-stop:
				return
			case <-t.C:
				if time.Since(time.Unix(0, lastBeat.Load())) > watchdog {
					killed.Store(true)
					cmd.Process.Kill()
					return
				}
			}
		}
	}()
	rd := bufio.NewReaderSize(stdout, 1<<20)
	for {
		line, err := rd.ReadString('\n')
		if len(line) > 2 {
			lastBeat.Store(time.Now().UnixNano())
			switch line[0] {
			case 'B':
				if a, e := strconv.Atoi(strings.TrimSpace(line[2:])); e == nil {
					last = a
				}
			case 'R':
				var r c10ChildResult
				if e := json.Unmarshal([]byte(strings.TrimSpace(line[2:])), &r); e == nil {
					res = &r
				}
			}
		}
		if err != nil {
			break
		}
	}
	io.Copy(io.Discard, stdout)
	werr := cmd.Wait()
	close(stop)
	state = "exit 0"
	if werr != nil {
		state = werr.Error()
	}
	if killed.Load() {
		state = "killed by the harness watchdog (no progress marker for " + watchdog.String() + ")"
	}
	return res, last, errBuf.String(), state
}

// c10Tail keeps the head and the tail of a child's stderr.
type c10Tail struct {
	mu   sync.Mutex
	head []byte
	tail []byte
}

func (t *c10Tail) Write(p []byte) (int, error) {
	t.mu.Lock()
	defer t.mu.Unlock()
	if len(t.head) < 1500 {
		n := 1500 - len(t.head)
		if n > len(p) {
			n = len(p)
		}
		t.head = append(t.head, p[:n]...)
	}
	t.tail = append(t.tail, p...)
	if len(t.tail) > 600 {
		t.tail = t.tail[len(t.tail)-600:]
	}
	return len(p), nil
}

func (t *c10Tail) String() string {
	t.mu.Lock()
	defer t.mu.Unlock()
	return string(t.head)
}

const (
	c10ChildStack   = 64 << 20 // lowered maximum goroutine stack in the enumeration children
	c10ChildAS      = 4 << 30  // address-space limit of an enumeration child
	c10ConfirmAS    = 12 << 30 // address-space limit of a confirmation child (default 1 GB stack limit)
	c10ChildWorkers = 16
)

func c10RunChildJob(c *Ctx, total *c10Stats, ji int, thorough bool) {
	jobs := c10ChildJobs(thorough)
	jb := jobs[ji]
	items := jb.items()
	name := fmt.Sprintf("%s opts=%s level=%s %s (child processes)", jb.name, jb.optTag, c10LevelName(jb.lvl), c10InputTag(jb.lvl, jb.L))
	if c.Expired() {
		c.NotExhaustive("internal deadline reached before " + name)
		return
	}
	t0 := time.Now()
	var mu sync.Mutex
	var agg c10Stats
	agg.ErrCodes = map[string]int64{}
	complete := true
	deaths := 0
	var wg sync.WaitGroup
	for shard := 0; shard < c10ChildWorkers; shard++ {
		wg.Add(1)
		go func(shard int) {
			defer wg.Done()
			from := 0
			for attempt := 0; attempt < 200; attempt++ {
				spec := c10ChildSpec{Job: ji, Shard: shard, N: c10ChildWorkers, FromPair: from, MaxStack: c10ChildStack,
					ASLimit: c10ChildAS, Thorough: thorough, Budget: defaultStepBudget}
				if !c.Deadline.IsZero() {
					spec.Deadline = c.Deadline.Unix()
				}
				res, last, errText, state := c10RunChild(spec, 150*time.Second)
				mu.Lock()
				if res != nil {
					agg.add(&res.Stats)
					for _, v := range res.Violations {
						c10Report(c, v)
					}
					if !res.Done {
						complete = false
					}
					mu.Unlock()
					return
				}
				mu.Unlock()
				// the child died: attribute, confirm, resume after the case
				if last < 0 {
					c.NotExhaustive(fmt.Sprintf("%s: shard %d died before its first case (%s): %s", name, shard, state, c10Short(errText, 300)))
					mu.Lock()
					complete = false
					mu.Unlock()
					return
				}
				it := items[last/len(jb.opts)]
				o := jb.opts[last%len(jb.opts)]
				mu.Lock()
				deaths++
				mu.Unlock()
				if strings.HasPrefix(state, "killed by the harness watchdog") {
					c.NotExhaustive(fmt.Sprintf("%s: %s under options %q made no progress for 150 s and was killed (wall-clock watchdog, not an oracle)", name, it.Name, string(o)))
					mu.Lock()
					complete = false
					mu.Unlock()
				} else {
					// confirm with the runtime's default stack limit and a larger memory limit
					cspec := spec
					cspec.FromPair, cspec.Single, cspec.MaxStack, cspec.ASLimit = last, true, 0, c10ConfirmAS
					cres, _, cerrText, cstate := c10RunChild(cspec, 300*time.Second)
					if cres == nil {
						pat := it.Src
						if len(pat) > 120 {
							pat = pat[:120] + "..."
						}
						c.Report(Violation{Leg: "death", Key: "death|" + string(o) + "|" + it.Name, Pattern: pat, Options: string(o),
							Detail: fmt.Sprintf("the process died while handling %s (%d bytes) under options %q: %s; reproduced in a fresh process with the default stack limit (%s): %s",
								it.Name, len(it.Src), string(o), state, cstate, c10Short(cerrText, 400)),
							Extra: map[string]any{"pattern_hex": c10HexIfSmall(it.Src), "item": it.Name, "job": ji, "pair_index": last}})
					} else {
						c.Outcome("child death only under the lowered limits (stack "+strconv.Itoa(c10ChildStack>>20)+" MB / address space "+strconv.Itoa(c10ChildAS>>30)+" GB): "+it.Name+" "+c10Short(errText, 80), 1)
						mu.Lock()
						agg.add(&cres.Stats)
						for _, v := range cres.Violations {
							c10Report(c, v)
						}
						mu.Unlock()
					}
				}
				// resume after the failing case
				from = last + 1
			}
			c.NotExhaustive(fmt.Sprintf("%s: shard %d abandoned after 200 process deaths", name, shard))
			mu.Lock()
			complete = false
			mu.Unlock()
		}(shard)
	}
	wg.Wait()
	fs := c.Fam(name)
	fs.Patterns, fs.Evaluations, fs.Nontrivial, fs.Complete = agg.Pairs, agg.Calls, agg.Nontrivial, complete
	fs.Note = fmt.Sprintf("items=%d option-sets=%d compiled=%d parse-errors=%d process-deaths=%d wall=%.1fs", len(items), len(jb.opts), agg.CompileOK, agg.CompileErr, deaths, time.Since(t0).Seconds())
	if !complete {
		c.NotExhaustive("not completed: " + name)
	}
	total.add(&agg)
	if os.Getenv("VERIF_C10_PROGRESS") != "" {
		fmt.Fprintf(os.Stderr, "%s: %.1fs\n", name, time.Since(t0).Seconds())
	}
}

func c10Short(s string, n int) string {
	s = strings.TrimSpace(s)
	if len(s) > n {
		s = s[:n] + "..."
	}
	return s
}

func c10HexIfSmall(s string) string {
	if len(s) > 4096 {
		return ""
	}
	return hex.EncodeToString([]byte(s))
}

// ---------------------------------------------------------------------------------------------
// the check

func runC10(c *Ctx) {
	if env := os.Getenv(c10ChildEnv); env != "" {
		var spec c10ChildSpec
		if err := json.Unmarshal([]byte(env), &spec); err != nil {
			fmt.Fprintln(os.Stderr, "bad child spec:", err)
			os.Exit(3)
		}
		c10ChildMain(spec) // never returns
	}
	if os.Getenv("GOGC") == "" {
		// tiny live heap, very high allocation rate: with the default setting the collector runs thousands of
		// times a second and the workers queue up behind it (measured: 2x wall time on 16 cores)
		debug.SetGCPercent(c10GCPercent)
	}
	c.Level = "exploration"
	thorough := c.Tier == "thorough"
	if thorough {
		c.SetBudget(30 * time.Minute)
	} else {
		c.SetBudget(240 * time.Second)
	}
	c.Rule = "for every enumerated (pattern bytes, option set): Compile returns a Regexp or a *syntax.Error and MustCompile panics exactly then, with a string carrying that error; for every compiled Regexp x every input x every call of the menu (match/find/find-next chains/find-all/StartingAt/Replace/ReplaceFunc/Split/getters/match accessors/Escape/Unescape/UnmarshalText/all adapter methods, argument menus incl. out-of-range values): the call returns normally (per-call recover), stays inside the step budget of 20M steps per scan on inputs of <= 3 runes, and a non-nil error is a match timeout, ErrBacktrackingStackLimit, one of the three documented argument errors ('startAt must be less than the length of the input string', 'startAt must align to the start of a valid rune in the input string', 'count too small') raised for an argument that really is out of range, or (Replace, Unescape, Compile-like calls) a *syntax.Error; the adapter panics only with one of those errors. Non-trivial = calls that found a match, changed the text or returned a permitted error."
	c.Assume("a *syntax.Error returned by Replace for a malformed replacement string (e.g. '$99999999999': capture group number out of range) is counted as a documented argument error")
	c.Assume("an argument error is only accepted when the argument is out of range (startAt > len, startAt inside a rune, count < -1)")
	c.Assume("hang = more than 20M interpreter/scan steps in one scan; with inputs of at most 3 runes and patterns of at most 5 tokens / 300 corpus bytes no legitimate backtracking comes near that")
	c.Assume("rune inputs are the decoded byte inputs (no invalid rune values); readers handed to the adapter never fail")
	c.Assume("Compile time and memory have no step hook: a child that prints no progress marker for 150 s is killed and the run marked not exhaustive (never a violation)")
	c.Assume("after 48 non-terminating calls of one method the out-of-range start offsets of that method are skipped for the remaining patterns (the run is then marked not exhaustive and fails anyway)")

	sh := newC10Shared()
	A := c10Tokens
	B := c10Tokens[:c10SizeB]
	C := c10Tokens[:c10SizeC]
	all := subsets(c10RegexOpts)
	cov := c10Covering()
	allTag := "all 512 regex-option subsets"
	covTag := fmt.Sprintf("covering %d", len(cov))
	few4 := "4 sets"
	few8 := "8 sets"
	var jobs []c10Job
	if !thorough {
		jobs = []c10Job{
			{alpha: A, k: 0, opts: all, optTag: allTag, lvl: c10LvlF, L: 2, replL: 1},
			{alpha: A, k: 1, opts: all, optTag: allTag, lvl: c10LvlS, L: 2},
			{alpha: A, k: 1, opts: cov, optTag: covTag, lvl: c10LvlF, L: 2, replL: 1},
			{alpha: A, k: 2, opts: cov, optTag: covTag, lvl: c10LvlS, L: 1},
			{alpha: A, k: 2, opts: c10Few, optTag: few8, lvl: c10LvlF, L: 1, replL: 0},
			{alpha: A, k: 2, opts: all, optTag: allTag, lvl: c10LvlCompile, noSlow: true},
			{alpha: A, k: 3, opts: c10Few, optTag: few8, lvl: c10LvlS, L: 1},
			{alpha: C, k: 4, opts: c10Fewer[:2], optTag: "2 sets (none, RE2)", lvl: c10LvlS, L: -1},
			{alpha: B, k: 4, opts: []optSet{""}, optTag: "none", lvl: c10LvlCompile},
		}
	} else {
		jobs = []c10Job{
			{alpha: A, k: 0, opts: all, optTag: allTag, lvl: c10LvlF, L: 3, replL: 2},
			{alpha: A, k: 1, opts: all, optTag: allTag, lvl: c10LvlF, L: 2, replL: 1},
			{alpha: A, k: 1, opts: cov, optTag: covTag, lvl: c10LvlF, L: 3, replL: 1},
			{alpha: A, k: 2, opts: cov, optTag: covTag, lvl: c10LvlF, L: 2, replL: 1},
			{alpha: A, k: 3, opts: c10Few, optTag: few8, lvl: c10LvlS, L: 1},
			{alpha: B, k: 3, opts: cov, optTag: covTag, lvl: c10LvlS, L: 1},
			{alpha: B, k: 4, opts: c10Fewer, optTag: few4, lvl: c10LvlS, L: -1},
			{alpha: A, k: 2, opts: all, optTag: allTag, lvl: c10LvlS, L: 1},
			{alpha: A, k: 4, opts: []optSet{""}, optTag: "none", lvl: c10LvlCompile},
			{alpha: C, k: 5, opts: []optSet{""}, optTag: "none", lvl: c10LvlS, L: -1},
			{alpha: C, k: 5, opts: []optSet{"2", "Rx"}, optTag: "2 sets (RE2, RightToLeft+x)", lvl: c10LvlCompile},
		}
	}
	var childTotal c10Stats
	childTotal.ErrCodes = map[string]int64{}
	only := os.Getenv("VERIF_C10_ONLY") // development aid: comma list of c<i> / t<i>
	sel := func(tag string) bool {
		if only == "" {
			return true
		}
		for _, x := range strings.Split(only, ",") {
			if x == tag {
				return true
			}
		}
		return false
	}
	if only != "" {
		c.NotExhaustive("VERIF_C10_ONLY=" + only + " selects a subset of the families")
	}
	// the shipped corpus first (cheap parts), then the token strings, the 512-subset sweep of the corpus last
	// simplest first (the first recorded witnesses are then the shortest): token strings of <= 1 token,
	// the shipped corpus, longer token strings; the 512-subset sweep of the corpus last
	for i, jb := range jobs {
		if jb.k <= 1 && sel(fmt.Sprintf("t%d", i)) {
			c10RunTok(c, sh, jb)
		}
	}
	if sel("p") {
		c10RunProps(c, sh, thorough)
	}
	if sel("x") {
		c10RunTrunc(c, sh, thorough)
	}
	for _, ji := range []int{0, 2, 3, 4} {
		if sel(fmt.Sprintf("c%d", ji)) {
			c10RunChildJob(c, &childTotal, ji, thorough)
		}
	}
	for i, jb := range jobs {
		if jb.k > 1 && sel(fmt.Sprintf("t%d", i)) {
			c10RunTok(c, sh, jb)
		}
	}
	if sel("c1") {
		c10RunChildJob(c, &childTotal, 1, thorough)
	}
	tot := sh.snapshot()
	tot.add(&childTotal)
	c.Eval(tot.Calls)
	c.Nontrivial(tot.Nontrivial)
	c.Outcome("compile: Regexp returned", tot.CompileOK)
	c.Outcome("compile: *syntax.Error returned", tot.CompileErr)
	c.Outcome("calls that found a match / changed the text", tot.Matches)
	c.Outcome("error: startAt beyond the input", tot.ErrLarge)
	c.Outcome("error: startAt inside a rune", tot.ErrAlign)
	c.Outcome("error: count too small", tot.ErrCount)
	c.Outcome("error: backtracking stack limit", tot.ErrStack)
	c.Outcome("error: match timeout", tot.ErrTimeout)
	c.Outcome("error: replacement string parse error", tot.ErrRepl)
	c.Outcome("error: Unescape parse error", tot.ErrUnesc)
	c.Outcome("distinct parse error codes", int64(len(tot.ErrCodes)))
	c10LegMu.Lock()
	for leg, n := range c10LegCount {
		c.Outcome("violating (pattern, option set) keys, leg "+leg, n)
	}
	c10LegMu.Unlock()
	if tot.Skipped > 0 {
		c.Outcome("calls skipped by the hang circuit breaker", tot.Skipped)
		c.NotExhaustive(fmt.Sprintf("%d out-of-range StartingAt calls were skipped after %d hangs of the same method", tot.Skipped, c10HangBreaker))
	}
	var codes []string
	for k := range tot.ErrCodes {
		codes = append(codes, k)
	}
	sort.Strings(codes)
	c.extra["parse_error_codes_seen"] = codes
	c.extra["token_alphabet_A"] = c10QuoteAll(A)
	c.extra["token_alphabet_B_size"] = c10SizeB
	c.extra["token_alphabet_C_size"] = c10SizeC
	c.extra["input_units"] = c10QuoteAll(c10InputUnits)
	c.extra["replacement_tokens"] = c10QuoteAll(c10ReplTokens)
	c.extra["covering_option_sets"] = cov
	c.extra["option_letters"] = "i m s n x = inline letters; R RightToLeft, E ECMAScript, 2 RE2, U Unicode; G OptionIsCodeGen, B OptionDisableCharClassASCIIBitmap, O OptionMaintainCaptureOrder, L OptionMaxBacktrackingStackSize(64), T MatchTimeout=24h, C OptionMaxCached*(0), c OptionMaxCached*(-1)"
	c.extra["argument_menu"] = "startAt, count in {-2,-1,0,1,len,len+1,len+7}; n in {-2,-1,0,1}, and 1<<40 in the child-process families"
	c.extra["corpus_sources"] = corpusStatCopy()
	c.Sample(map[string]any{"family": "TOK", "pattern": "(?<n>)|\\k<n>", "note": "4 tokens"})
	c.Sample(map[string]any{"family": "TOK", "pattern": "(?(1)[^\xff{2,1}", "note": "4 tokens, does not parse"})
	c.Sample(map[string]any{"family": "DEEP", "pattern": "((((...a...))))", "note": "nesting depths " + fmt.Sprint(c10DeepSizes) + " (thorough " + fmt.Sprint(c10DeepSizesThorough) + ")"})
	c.Sample(map[string]any{"call": "FindRunesMatchStartingAt(r, len+1) / Replace(s, \"${n}$`\", len+7, -2)"})
}

func corpusStatCopy() map[string]int {
	corpusEverything()
	out := map[string]int{}
	for k, v := range corpusStat {
		out[k] = v
	}
	return out
}

func c10QuoteAll(xs []string) []string {
	out := make([]string, len(xs))
	for i, x := range xs {
		out[i] = strconv.QuoteToASCII(x)
	}
	return out
}

// replayC10 re-runs the full menu for the recorded (pattern, option set) on the recorded input and
// reports whether the recorded leg still fails.
func replayC10(v Violation) (bool, string) {
	pat := v.Pattern
	if h, ok := v.Extra["pattern_hex"].(string); ok && h != "" {
		if b, err := hex.DecodeString(h); err == nil {
			pat = string(b)
		}
	} else if name, ok := v.Extra["item"].(string); ok {
		found := false
		for _, it := range c10DeepItemsThorough() {
			if it.Name == name {
				pat, found = it.Src, true
			}
		}
		if !found {
			return false, "the pattern text was too long to be recorded and " + name + " is not a generated item"
		}
	}
	in := ""
	if h, ok := v.Extra["input_hex"].(string); ok {
		if b, err := hex.DecodeString(h); err == nil {
			in = string(b)
		}
	}
	if v.Leg == "death" {
		// run it here: if this process survives, the death is not reproduced
		sh := newC10Shared()
		c10One(sh, pat, optSet(v.Options), c10LvlS, []string{"", "a"}, nil, 0)
		return false, "the pattern was compiled and matched in this process without a fatal error"
	}
	sh := newC10Shared()
	fails := c10One(sh, pat, optSet(v.Options), c10LvlF, []string{in}, c10Repls(), 3)
	for _, f := range fails {
		if f.Leg == v.Leg {
			return true, f.Detail
		}
	}
	if len(fails) > 0 {
		return false, "the recorded leg passes; other legs fail: " + fails[0].Leg + ": " + fails[0].Detail
	}
	return false, "every call of the full menu returned normally with a permitted result"
}
