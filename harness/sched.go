//go:build sched

package main

// Stateless schedule exploration (CHESS style) over the controlled scheduler in shim/vsched:
// depth-first search over choice sequences with a preemption bound and a deviation bound
// (timer jitter, pool miss / drop / other item). Scenarios are sharded over worker processes
// because the code under test has process-wide state (timeout clock, global buffer pools).

import (
	"bufio"
	"encoding/json"
	"fmt"
	"os"
	"os/exec"
	"runtime"
	"sort"
	"strconv"
	"strings"
	"sync"
	"time"

	"github.com/dlclark/regexp2/v2/verifshim/vsched"
)

type schedOutcome struct {
	Trace   []vsched.Point
	Steps   int
	Verdict string // "" = oracle satisfied
	Harness string // harness-level problem (never a property violation)
	Outcome string // canonical observable outcome of this execution
	Log     []string
}

type schedScenario struct {
	Name string
	PB   int // preemption bound
	DB   int // deviation bound
	FB   int // bound on non-default choices at points where the running thread is not enabled (ties between woken threads); 0 = unbounded
	Cap  int // maximum executions (0 = default); hitting it is reported as a cap
	Run  func(prefix []int, verbose bool) schedOutcome
}

type scenarioResult struct {
	Idx       int            `json:"idx"`
	Name      string         `json:"name"`
	Execs     int64          `json:"execs"`
	Steps     int64          `json:"steps"`
	Points    int64          `json:"points"`
	Outcomes  map[string]int `json:"outcomes"`
	Capped    bool           `json:"capped"`
	Violation string         `json:"violation,omitempty"`
	Choices   []int          `json:"choices,omitempty"`
	Harness   string         `json:"harness,omitempty"`
	MaxPre    int            `json:"max_preemptions"`
	MaxDev    int            `json:"max_deviations"`
}

func choicesOf(tr []vsched.Point) []int {
	ch := make([]int, len(tr))
	for i, p := range tr {
		ch[i] = p.Chosen
	}
	// trailing zeros are the default anyway
	n := len(ch)
	for n > 0 && ch[n-1] == 0 {
		n--
	}
	return ch[:n]
}

func exploreScenario(idx int, sc schedScenario) scenarioResult {
	res := scenarioResult{Idx: idx, Name: sc.Name, Outcomes: map[string]int{}}
	capN := sc.Cap
	if capN == 0 {
		capN = 400000
	}
	var rec func(prefix []int)
	rec = func(prefix []int) {
		if res.Violation != "" || res.Harness != "" {
			return
		}
		if int(res.Execs) >= capN || (res.Execs%256 == 255 && schedDeadlinePassed()) {
			res.Capped = true
			return
		}
		x := sc.Run(prefix, false)
		res.Execs++
		res.Steps += int64(x.Steps)
		res.Points += int64(len(x.Trace))
		if x.Harness != "" {
			res.Harness = x.Harness + " choices=" + fmt.Sprint(choicesOf(x.Trace))
			return
		}
		res.Outcomes[x.Outcome]++
		if x.Verdict != "" {
			// confirm: the same choice list must fail identically twice more
			ch := choicesOf(x.Trace)
			y := sc.Run(ch, false)
			z := sc.Run(ch, false)
			if y.Verdict != x.Verdict || z.Verdict != x.Verdict || y.Outcome != x.Outcome {
				res.Harness = fmt.Sprintf("non-deterministic replay of a failing schedule: %q / %q / %q", x.Verdict, y.Verdict, z.Verdict)
				return
			}
			res.Violation = x.Verdict
			res.Choices = ch
			return
		}
		pre, dev, free := 0, 0, 0
		for i, p := range x.Trace {
			if i >= len(prefix) {
				for alt := 1; alt < p.N; alt++ {
					np, nd, nf := pre, dev, free
					if p.Kind == 's' {
						if p.Preempt {
							np++
						} else {
							nf++
						}
					} else {
						nd++
					}
					if np > sc.PB || nd > sc.DB || (sc.FB > 0 && nf > sc.FB) {
						continue
					}
					if np > res.MaxPre {
						res.MaxPre = np
					}
					if nd > res.MaxDev {
						res.MaxDev = nd
					}
					child := make([]int, i+1)
					for k := 0; k < i; k++ {
						child[k] = x.Trace[k].Chosen
					}
					child[i] = alt
					rec(child)
					if res.Violation != "" || res.Harness != "" {
						return
					}
				}
			}
			if p.Chosen != 0 {
				if p.Kind == 's' {
					if p.Preempt {
						pre++
					} else {
						free++
					}
				} else {
					dev++
				}
			}
		}
	}
	rec(nil)
	return res
}

// schedWorkerMain: `rxs sched-worker <ID> <tier> <w> <W>` explores scenarios idx%W==w and prints one JSON line each.
func schedWorkerMain(args []string) int {
	id, tier := args[0], args[1]
	w, _ := strconv.Atoi(args[2])
	W, _ := strconv.Atoi(args[3])
	scs := schedScenarios[id](tier)
	out := bufio.NewWriter(os.Stdout)
	defer out.Flush()
	if W < 0 { // debug: list scenarios
		for i, sc := range scs {
			fmt.Fprintf(out, "%d %s pb=%d db=%d\n", i, sc.Name, sc.PB, sc.DB)
		}
		return 0
	}
	for i, sc := range scs {
		if W == 0 && i != w { // debug: one scenario
			continue
		}
		if W > 0 && i%W != w {
			continue
		}
		if schedDeadlinePassed() { // the coordinator reports the scenarios that are missing as not explored
			break
		}
		t0 := time.Now()
		r := exploreScenario(i, sc)
		if W == 0 {
			fmt.Fprintf(os.Stderr, "scenario %d: %v goroutines=%d\n", i, time.Since(t0), runtime.NumGoroutine())
		}
		b, _ := json.Marshal(r)
		out.Write(b)
		out.WriteByte('\n')
		out.Flush()
	}
	return 0
}

var schedScenarios = map[string]func(tier string) []schedScenario{}

// the coordinator hands its internal deadline to the workers (unix seconds); a worker that reaches it stops starting
// scenarios and ends the one it is in as "capped": the run then ends with exit 0 and exhaustive=false
var schedDeadline = func() int64 { n, _ := strconv.ParseInt(os.Getenv("VERIF_SCHED_DEADLINE"), 10, 64); return n }()

func schedDeadlinePassed() bool { return schedDeadline > 0 && time.Now().Unix() >= schedDeadline }

// runSched is the coordinator: shards the scenario list over worker processes and folds the results into the Ctx.
func runSched(c *Ctx, id string) {
	scs := schedScenarios[id](c.Tier)
	W := runtime.NumCPU()
	if W > 16 {
		W = 16
	}
	if W > len(scs) {
		W = len(scs)
	}
	self, _ := os.Executable()
	budget := 12 * time.Minute
	if c.Tier == "thorough" {
		budget = 60 * time.Minute
	}
	if b, err := strconv.Atoi(os.Getenv("VERIF_BUDGET_S")); err == nil && b > 0 {
		budget = time.Duration(b) * time.Second
	}
	deadline := time.Now().Add(budget).Unix()
	var mu sync.Mutex
	var results []scenarioResult
	var wg sync.WaitGroup
	for w := 0; w < W; w++ {
		wg.Add(1)
		go func(w int) {
			defer wg.Done()
			cmd := exec.Command(self, "sched-worker", id, c.Tier, strconv.Itoa(w), strconv.Itoa(W))
			cmd.Env = append(os.Environ(), "GOMAXPROCS=1", "VERIF_SCHED_DEADLINE="+strconv.FormatInt(deadline, 10))
			cmd.Stderr = os.Stderr
			stdout, err := cmd.StdoutPipe()
			if err != nil || cmd.Start() != nil {
				mu.Lock()
				c.NotExhaustive(fmt.Sprintf("worker %d could not be started", w))
				mu.Unlock()
				return
			}
			sc := bufio.NewScanner(stdout)
			sc.Buffer(make([]byte, 1<<20), 1<<24)
			for sc.Scan() {
				var r scenarioResult
				if json.Unmarshal(sc.Bytes(), &r) == nil {
					mu.Lock()
					results = append(results, r)
					mu.Unlock()
				}
			}
			if err := cmd.Wait(); err != nil {
				mu.Lock()
				c.NotExhaustive(fmt.Sprintf("worker %d ended abnormally: %v", w, err))
				mu.Unlock()
			}
		}(w)
	}
	wg.Wait()
	sort.Slice(results, func(i, j int) bool { return results[i].Idx < results[j].Idx })
	if len(results) != len(scs) {
		c.NotExhaustive(fmt.Sprintf("%d of %d scenarios explored (internal deadline of %v, or a worker ended early)", len(results), len(scs), budget))
	}
	var execs, steps, points int64
	distinct := map[string]bool{}
	groups := map[string]*famStat{}
	for _, r := range results {
		execs += r.Execs
		steps += r.Steps
		points += r.Points
		g := strings.SplitN(r.Name, ":", 2)[0]
		fs := groups[g]
		if fs == nil {
			fs = c.Fam(g)
			fs.Complete = true
			groups[g] = fs
		}
		fs.Patterns++
		fs.Evaluations += r.Execs
		if len(r.Outcomes) > 1 {
			fs.Nontrivial++
			c.Nontrivial(1)
		}
		for o := range r.Outcomes {
			distinct[g+"|"+o] = true
		}
		if r.Capped {
			fs.Complete = false
			c.NotExhaustive("execution cap or internal deadline reached in scenario " + r.Name)
		}
		if r.Harness != "" {
			// a harness problem is never reported as a violation of the property
			fs.Complete = false
			c.NotExhaustive("harness problem in scenario " + r.Name + ": " + r.Harness)
			fmt.Fprintln(os.Stderr, "HARNESS:", r.Name, r.Harness)
		}
		if r.Violation != "" {
			c.Report(Violation{Leg: "schedule", Key: "schedule|" + r.Name, Pattern: r.Name, Detail: r.Violation + fmt.Sprintf(" (found after %d executions)", r.Execs),
				Extra: map[string]any{"scenario": r.Name, "scenario_index": r.Idx, "choices": r.Choices}})
		}
	}
	c.Eval(execs)
	c.extra["states"] = points
	c.extra["transitions"] = steps
	c.extra["traces_validated_against_impl"] = execs
	c.extra["scenarios"] = len(scs)
	c.extra["executions"] = execs
	c.extra["scheduling_points"] = points
	c.extra["scheduler_steps"] = steps
	c.extra["distinct_observed_outcomes"] = len(distinct)
	for i, r := range results {
		if i%(len(results)/6+1) == 0 {
			c.Sample(map[string]any{"scenario": r.Name, "executions": r.Execs, "distinct_outcomes": len(r.Outcomes), "max_preemptions_explored": r.MaxPre, "max_deviations_explored": r.MaxDev})
		}
	}
}

// replaySched re-executes one recorded schedule.
func replaySched(id string) func(v Violation) (bool, string) {
	return func(v Violation) (bool, string) {
		idx := int(v.Extra["scenario_index"].(float64))
		var ch []int
		if xs, ok := v.Extra["choices"].([]any); ok {
			for _, x := range xs {
				ch = append(ch, int(x.(float64)))
			}
		}
		for _, tier := range []string{"quick", "thorough"} {
			scs := schedScenarios[id](tier)
			if idx >= len(scs) || scs[idx].Name != v.Extra["scenario"].(string) {
				// the scenario list may have grown since the artefact was written: find the scenario by name
				for k := range scs {
					if scs[k].Name == v.Extra["scenario"].(string) {
						idx = k
					}
				}
			}
			if idx < len(scs) && scs[idx].Name == v.Extra["scenario"].(string) {
				x := scs[idx].Run(ch, true)
				for _, l := range x.Log {
					fmt.Println("   ", l)
				}
				if x.Harness != "" {
					return false, "harness: " + x.Harness
				}
				return x.Verdict != "", "verdict: " + x.Verdict + " outcome: " + x.Outcome
			}
		}
		return false, "scenario not found"
	}
}

func init() { schedWorker = schedWorkerMain }
