package main

// C19: Escape and Unescape are inverse, and Escape(s) is a pattern that means "the literal text s"
// under every option set that keeps literal meaning.
//
// Bounded-exhaustive exploration:
//   U1     every string of ONE rune, over all 1,112,064 Unicode scalar values
//   ALPHA  every string of length 0..L over a curated 64-rune alphabet (all metacharacters, pattern
//          whitespace, controls, Latin-1 edge cases, non-printable / unassigned / private-use runes
//          below and above U+FFFF, and letters/digits that could be swallowed by a neighbouring escape)
// each one x a menu of option sets.

import (
	"fmt"
	"strconv"
	"strings"
	"sync"
	"sync/atomic"
	"time"
	"unicode"

	regexp2 "github.com/dlclark/regexp2/v2"
)

func init() {
	register("C19", runC19)
	replayers["C19"] = replayC19
}

// c19Alphabet: 64 runes, simplest first (the enumeration order of ALPHA follows this order).
var c19Alphabet = []rune{
	// plain letters and digits; the hex digits / escape letters can be swallowed by a preceding escape
	'a', '1', 'x', 'u', '0', '7', 'f', 'e', 'c', 'n', 'A', '-',
	// the regex metacharacters (everything Escape is expected to neutralise)
	'\\', '.', '+', '*', '?', '(', ')', '|', '[', ']', '{', '}', '^', '$', '#', ' ',
	// characters that are special only inside constructs
	',', ':', '<', '=', '!',
	// pattern whitespace and controls
	'\t', '\n', '\v', '\f', '\r', 0x00, 0x07, 0x08, 0x1B, 0x7F,
	// Latin-1 edge cases: C1 control, NEL, NBSP, soft hyphen, y-diaeresis
	0x80, 0x85, 0xA0, 0xAD, 0xFF,
	// BMP: first rune above Latin-1, unassigned, format control, unassigned, first 4-hex-digit rune,
	// line separator, private use, BOM (format control), replacement character, non-character
	0x100, 0x378, 0x61C, 0xFFF, 0x1000, 0x2028, 0xE000, 0xFEFF, 0xFFFD, 0xFFFF,
	// supplementary planes: first (printable), musical format control, language tag (Cf),
	// plane-15 private use, first of plane 16, last scalar value
	0x10000, 0x1D173, 0xE0001, 0xF0000, 0x100000, 0x10FFFF,
}

// c19FullMenu: option sets that keep the meaning of a literal. IgnoreCase keeps "s matches itself" and the
// length-changing mutants; successor mutants are only used under IgnoreCase when neither rune is cased.
func c19FullMenu() []optSet {
	out := subsets("imsnx") // 32, smallest first
	out = append(out, "R", "Rx", "Ri", "Rix", "2", "2x", "2i", "2ix", "E", "Ex", "Ei", "Eix", "EU", "EUx", "R2x", "B", "G")
	return out
}

// quick tier menu of the full-Unicode sweep and of ALPHA len=3 (R, m, s, n ... are covered by the full menu on ALPHA len<=2)
var c19SweepMenu = []optSet{"", "x", "ix", "2", "E"}

// thorough tier menu of the full-Unicode sweep
var c19SweepMenuThorough = []optSet{"", "x", "i", "ix", "m", "s", "n", "imsnx", "R", "Rx", "2", "2x", "E", "Ex", "EU"}

type c19Fail struct {
	leg  string
	opts optSet
	pat  string
	text []rune        // the text the verdict is about (s itself or a mutant)
	mk   func() string // the explanation, built only when the failure is reported
}

func (f *c19Fail) detail() string { return f.mk() }

func c19Lazy(format string, a ...any) func() string {
	return func() string { return fmt.Sprintf(format, a...) }
}

func c19Quote(s string) string { return strconv.QuoteToASCII(s) }

// c19Q quotes lazily (only when a failure is actually formatted).
type c19Q string

func (s c19Q) String() string { return strconv.QuoteToASCII(string(s)) }

// c19RoundTrip: Unescape(Escape(s)) == s without error.
func c19RoundTrip(s string) *c19Fail {
	esc := regexp2.Escape(s)
	u, err := regexp2.Unescape(esc)
	if err != nil {
		return &c19Fail{leg: "roundtrip", pat: esc, text: []rune(s), mk: c19Lazy("Escape(%s) = %s and Unescape of that fails: %v", c19Q(s), c19Q(esc), err)}
	}
	if u != s {
		return &c19Fail{leg: "roundtrip", pat: esc, text: []rune(s), mk: c19Lazy("Escape(%s) = %s and Unescape of that = %s, not the original", c19Q(s), c19Q(esc), c19Q(u))}
	}
	return nil
}

func c19Pattern(s string) string { return `\A(?:` + regexp2.Escape(s) + `)\z` }

func c19Succ(r rune) (rune, bool) {
	if r >= unicode.MaxRune {
		return 0, false
	}
	r++
	if r == 0xD800 {
		r = 0xE000
	}
	return r, true
}

func c19Cased(r rune) bool {
	return unicode.IsLetter(r) || unicode.SimpleFold(r) != r || unicode.Is(unicode.Nl, r) || unicode.Is(unicode.M, r)
}

// c19Mutants: every string obtained from s by deleting one rune, duplicating one rune, or replacing one rune
// by its successor scalar value. All of them differ from s.
func c19Mutants(s []rune, ignoreCase bool, visit func(kind string, t []rune) bool) {
	n := len(s)
	for k := 0; k < n; k++ {
		if k > 0 && s[k] == s[k-1] {
			continue // same string as deleting k-1
		}
		t := make([]rune, 0, n-1)
		t = append(append(t, s[:k]...), s[k+1:]...)
		if !visit("delete", t) {
			return
		}
	}
	for k := 0; k < n; k++ {
		if k > 0 && s[k] == s[k-1] {
			continue
		}
		t := make([]rune, 0, n+1)
		t = append(append(append(t, s[:k+1]...), s[k]), s[k+1:]...)
		if !visit("duplicate", t) {
			return
		}
	}
	for k := 0; k < n; k++ {
		nx, ok := c19Succ(s[k])
		if !ok {
			continue
		}
		if ignoreCase && (c19Cased(s[k]) || c19Cased(nx)) {
			continue
		}
		t := make([]rune, n)
		copy(t, s)
		t[k] = nx
		if !visit("successor", t) {
			return
		}
	}
}

// c19CheckOpts: \A(?:Escape(s))\z compiles under o, matches exactly s (rune and string entry points) and
// rejects every one-rune mutant of s. Returns the number of evaluations and the first failure.
func c19CheckOpts(s []rune, o optSet) (evals int64, fail *c19Fail) {
	str := string(s)
	esc := regexp2.Escape(str)
	return c19CheckPat(s, str, esc, `\A(?:`+esc+`)\z`, o)
}

func c19CheckPat(s []rune, str, esc, pat string, o optSet) (evals int64, fail *c19Fail) {
	evals++
	re, err := regexp2.Compile(pat, o.compileOptions()...)
	if err != nil {
		return evals, &c19Fail{leg: "compile", opts: o, pat: pat, text: s, mk: c19Lazy("Escape(%s) = %s; the anchored pattern does not compile: %v", c19Q(str), c19Q(esc), err)}
	}
	evals++
	if rm, rerr := re.FindRunesMatch(s); rerr != nil || rm == nil || rm.RuneIndex != 0 || rm.RuneLength != len(s) {
		m := fromMatch(rm, rerr)
		return evals, &c19Fail{leg: "match", opts: o, pat: pat, text: s, mk: c19Lazy("Escape(%s) = %s; the anchored pattern must match the whole of s (FindRunesMatch) but gives %s", c19Q(str), c19Q(esc), m)}
	}
	evals++
	sm, serr := re.FindStringMatch(str)
	bi, bl := -1, -1
	if serr == nil && sm != nil {
		bi, bl = sm.ByteRange()
	}
	if serr != nil || sm == nil || bi != 0 || bl != len(str) || sm.String() != str {
		got := "nomatch"
		if serr != nil {
			got = "error(" + serr.Error() + ")"
		} else if sm != nil {
			got = fmt.Sprintf("match[byte %d,+%d] %s", bi, bl, c19Quote(sm.String()))
		}
		return evals, &c19Fail{leg: "match-string", opts: o, pat: pat, text: s, mk: c19Lazy("Escape(%s) = %s; the anchored pattern must match the whole of s (FindStringMatch) but gives %s", c19Q(str), c19Q(esc), got)}
	}
	c19Mutants(s, o.has('i'), func(kind string, t []rune) bool {
		evals++
		if rm, rerr := re.FindRunesMatch(t); rerr != nil || rm != nil {
			mm := fromMatch(rm, rerr)
			fail = &c19Fail{leg: "reject", opts: o, pat: pat, text: t, mk: c19Lazy("Escape(%s) = %s; the anchored pattern must reject %s (%s one rune of s) but gives %s", c19Q(str), c19Q(esc), c19Q(string(t)), kind, mm)}
			return false
		}
		return true
	})
	return evals, fail
}

// the Safe variants turn a panic of the library into a failure of the exact case
func c19RoundTripSafe(s string) (f *c19Fail) {
	defer func() {
		if r := recover(); r != nil {
			f = &c19Fail{leg: "panic", pat: "Unescape(Escape(s))", text: []rune(s), mk: c19Lazy("%s in Unescape(Escape(%s))", panicText(r), c19Q(s))}
		}
	}()
	return c19RoundTrip(s)
}

func c19CheckOptsSafe(s []rune, str, esc, pat string, o optSet) (n int64, f *c19Fail) {
	defer func() {
		if r := recover(); r != nil {
			n++
			f = &c19Fail{leg: "panic", opts: o, pat: pat, text: s, mk: c19Lazy("%s while compiling/matching the anchored pattern of %s", panicText(r), c19Q(string(s)))}
		}
	}()
	return c19CheckPat(s, str, esc, pat, o)
}

func c19Ints(r []rune) []int {
	out := make([]int, len(r))
	for i, x := range r {
		out[i] = int(x)
	}
	return out
}

// c19ReportCap bounds the number of distinct violation keys kept in memory (a systematic defect of Escape
// fails millions of strings of the longer ALPHA families); failures beyond it are only counted.
const c19ReportCap = 2_500_000

// c19FullReports: number of reports that carry the full explanation and replay data.
const c19FullReports = 5000

var c19Reports, c19Suppressed atomic.Int64

func c19Report(c *Ctx, s []rune, f *c19Fail) {
	n := c19Reports.Add(1)
	if n > c19ReportCap {
		c19Suppressed.Add(1)
		return
	}
	str := string(s)
	if n > c19FullReports {
		// core.go keeps the first 40 reported violations in full and only the keys of the others: once far
		// more than that have been reported, skip the formatting work (the key stays exact)
		c.Report(Violation{Leg: f.leg, Key: f.leg + "|" + string(f.opts) + "|" + c19Quote(str), Pattern: f.pat, Options: string(f.opts), Detail: "(details are only formatted for the first reports of a run; re-run the case to see them)"})
		return
	}
	c.Report(Violation{
		Leg:     f.leg,
		Key:     f.leg + "|" + string(f.opts) + "|" + c19Quote(str),
		Pattern: f.pat,
		Options: string(f.opts),
		Input:   qr(f.text),
		Detail:  f.detail(),
		Extra:   map[string]any{"s": c19Quote(str), "s_runes": c19Ints(s), "input_runes": c19Ints(f.text), "escape": regexp2.Escape(str)},
	})
}

// c19Shape classifies the text Escape produced (hex digits of \x / \u escapes become 'h').
func c19Shape(s, esc string) string {
	if esc == s {
		return "unchanged"
	}
	var sb strings.Builder
	rs := []rune(esc)
	for i := 0; i < len(rs); i++ {
		r := rs[i]
		if r != '\\' || i+1 >= len(rs) {
			sb.WriteByte('.')
			continue
		}
		i++
		switch e := rs[i]; {
		case e == 'x' || e == 'u':
			sb.WriteByte('\\')
			sb.WriteRune(e)
			for i+1 < len(rs) && strings.ContainsRune("0123456789abcdefABCDEF", rs[i+1]) {
				sb.WriteByte('h')
				i++
			}
		case e < 0x80 && (unicode.IsLetter(e) || unicode.IsDigit(e)):
			sb.WriteByte('\\')
			sb.WriteRune(e)
		default:
			sb.WriteString(`\<self>`)
		}
	}
	return sb.String()
}

type c19Acc struct {
	strs, evals, nontriv int64
	out                  map[string]int64
}

func (a *c19Acc) add(k string) {
	if a.out == nil {
		a.out = map[string]int64{}
	}
	a.out[k]++
}

// c19One runs every leg for one string; shapes says whether the escape shape goes into the histogram key.
func c19One(c *Ctx, acc *c19Acc, fam string, s []rune, menu []optSet, shapes bool) {
	str := string(s)
	esc := regexp2.Escape(str)
	acc.strs++
	if esc != str {
		acc.nontriv++
	}
	tag := fam
	if shapes {
		tag = fam + " escape=" + c19Shape(str, esc)
	}
	acc.evals++
	verdict := "ok"
	if f := c19RoundTripSafe(str); f != nil {
		c19Report(c, s, f)
		verdict = "FAIL roundtrip"
	}
	pat := `\A(?:` + esc + `)\z`
	// one report per string for the pattern legs: the first failing (option set, leg) in menu order
	var first *c19Fail
	nfail := 0
	for _, o := range menu {
		n, f := c19CheckOptsSafe(s, str, esc, pat, o)
		acc.evals += n
		if f != nil {
			nfail++
			if first == nil {
				first = f
			}
		}
	}
	if first != nil {
		c19Report(c, s, first)
		if verdict == "ok" {
			verdict = "FAIL"
		}
		verdict += fmt.Sprintf(" %s(first opts=%q; %d of %d option sets fail)", first.leg, string(first.opts), nfail, len(menu))
	}
	acc.add(tag + ": " + verdict)
}

type c19Family struct {
	name   string
	items  int
	run    func(i int, acc *c19Acc)
	witnes func(i int) string
}

func c19RunFamily(c *Ctx, f c19Family) {
	if c.Expired() {
		c.NotExhaustive("internal deadline reached before " + f.name)
		return
	}
	fs := c.Fam(f.name)
	var mu sync.Mutex
	total := c19Acc{out: map[string]int64{}}
	done := c.parallel(f.items, func(i int) {
		var acc c19Acc
		defer func() {
			// merge also when the item panicked half way
			mu.Lock()
			total.strs += acc.strs
			total.evals += acc.evals
			total.nontriv += acc.nontriv
			for k, v := range acc.out {
				total.out[k] += v
			}
			mu.Unlock()
		}()
		f.run(i, &acc)
	}, func(i int, r any) {
		w := f.witnes(i)
		c.Report(Violation{Leg: "panic", Key: "panic||" + w, Pattern: w, Detail: panicText(r) + " while checking work item " + w + " of " + f.name})
	})
	fs.Patterns, fs.Evaluations, fs.Nontrivial, fs.Complete = total.strs, total.evals, total.nontriv, done
	if !done {
		c.NotExhaustive("internal deadline reached inside " + f.name)
	}
	c.Eval(total.evals)
	c.Nontrivial(total.nontriv)
	for k, v := range total.out {
		c.Outcome(k, v)
	}
}

func c19MenuString(m []optSet) string {
	var parts []string
	for _, o := range m {
		if o == "" {
			parts = append(parts, "-")
		} else {
			parts = append(parts, string(o))
		}
	}
	return strings.Join(parts, ",")
}

// alphaFamily: every string of exactly length L over the alphabet, in alphabet order; one work item per
// prefix of length L-1.
func c19AlphaFamily(c *Ctx, L int, menu []optSet, menuName string) c19Family {
	return c19AlphaFamilyOver(c, "ALPHA", c19Alphabet, L, menu, menuName)
}

// c19MixAlphabet: a small alphabet for longer strings: a metacharacter, a blank, a digit that an escape could
// swallow, a control that Escape writes in hex, a plain letter, and 2-, 3- and 4-byte runes that Escape keeps raw
// (in longer strings byte offsets and rune offsets drift apart between two escapes)
var c19MixAlphabet = []rune{'.', 'x', '1', ' ', 0x01, 'é', 0x4E2D, 0x1F600}

func c19AlphaFamilyOver(c *Ctx, tag string, A []rune, L int, menu []optSet, menuName string) c19Family {
	items := 1
	for i := 0; i < L-1; i++ {
		items *= len(A)
	}
	name := fmt.Sprintf("%s len=%d (%d-rune alphabet) x %d option sets [%s]", tag, L, len(A), len(menu), menuName)
	decode := func(i int) []rune {
		if L == 0 {
			return nil
		}
		p := make([]rune, L-1, L)
		for k := L - 2; k >= 0; k-- {
			p[k] = A[i%len(A)]
			i /= len(A)
		}
		return p
	}
	return c19Family{name: name, items: items,
		run: func(i int, acc *c19Acc) {
			p := decode(i)
			if L == 0 {
				c19One(c, acc, fmt.Sprintf("%s len=%d", tag, L), nil, menu, false)
				return
			}
			for _, a := range A {
				s := append(append(make([]rune, 0, L), p...), a)
				c19One(c, acc, fmt.Sprintf("%s len=%d", tag, L), s, menu, false)
			}
		},
		witnes: func(i int) string { return "prefix " + c19Quote(string(decode(i))) },
	}
}

const c19Block = 256

func c19UnicodeFamily(c *Ctx, menu []optSet) c19Family {
	name := fmt.Sprintf("U1 every scalar value U+0000..U+10FFFF x %d option sets [%s]", len(menu), c19MenuString(menu))
	return c19Family{name: name, items: (unicode.MaxRune + 1) / c19Block,
		run: func(i int, acc *c19Acc) {
			for r := rune(i * c19Block); r < rune((i+1)*c19Block); r++ {
				if r >= 0xD800 && r <= 0xDFFF {
					continue
				}
				c19One(c, acc, "U1", []rune{r}, menu, true)
			}
		},
		witnes: func(i int) string { return fmt.Sprintf("block U+%04X..U+%04X", i*c19Block, (i+1)*c19Block-1) },
	}
}

func runC19(c *Ctx) {
	c.Level = "exploration"
	thorough := c.Tier == "thorough"
	if thorough {
		c.SetBudget(28 * time.Minute)
	} else {
		c.SetBudget(170 * time.Second)
	}
	full := c19FullMenu()
	c.Rule = "every one-rune string over all 1,112,064 Unicode scalar values (family U1) and every string of length 0..L over a curated 64-rune alphabet (family ALPHA: all regex metacharacters, blank, '#', \\t\\n\\v\\f\\r, NUL, BEL, BS, ESC, DEL, C1/NEL/NBSP/SHY/U+00FF, U+0100, unassigned U+0378/U+0FFF, format controls U+061C/U+1D173/U+E0001, U+1000, U+2028, private use U+E000/U+F0000/U+100000, U+FFFF, U+10000, U+10FFFF, and letters/digits that a neighbouring escape could swallow) x a menu of option sets that keep literal meaning. Oracle per string s: Unescape(Escape(s)) returns s without error; and for every option set o of the menu the pattern \\A(?:Escape(s))\\z compiles under o, FindRunesMatch(s) and FindStringMatch(s) match exactly [0,len(s)), and every string obtained from s by deleting one rune, duplicating one rune or replacing one rune by its successor scalar value is rejected (under IgnoreCase the successor mutants are used only when neither rune is cased). Enumeration is simplest first: ALPHA by length then alphabet order, U1 by code point. Non-trivial = strings that Escape changes. One violation per (leg, s): key roundtrip||s, and for the pattern legs the first failing (option set, leg) in menu order: key leg|opts|s."
	c.Assume("valid UTF-8 only: the strings are built from Unicode scalar values (surrogates U+D800..U+DFFF are not scalar values and are skipped)")
	c.Assume("option sets regarded as keeping literal meaning: all subsets of {IgnoreCase, Multiline, Singleline, ExplicitCapture, IgnorePatternWhitespace}, and RightToLeft / RE2 / ECMAScript (+Unicode) with and without x and i; for each set the anchors \\A..\\z are first checked on the pattern \\A(?:a)\\z against a, aa, a\\n, \\na")
	c.Assume("IgnoreCase: s must still match itself and length-changing mutants must be rejected; the successor-code-point mutant is skipped when either rune is a letter, a mark, a letter-number or has a non-trivial unicode.SimpleFold orbit")

	c.Assume(fmt.Sprintf("at most %d distinct violation keys are kept (memory); further failing strings are counted in failures_counted_but_not_reported_beyond_cap and in distinct_outcomes", c19ReportCap))
	c.Assume("quick: full option menu on ALPHA len<=2, the 5-set menu on U1 and ALPHA len=3; thorough: 15-set menu on U1, full menu on ALPHA len<=3, {-,x} on ALPHA len=4")

	// the anchors must mean what the oracle assumes under every option set of the menu
	for _, o := range full {
		re, err := regexp2.Compile(`\A(?:a)\z`, o.compileOptions()...)
		if err != nil {
			c.Report(Violation{Leg: "anchor-sanity", Key: "anchor-sanity|" + string(o) + `|\A(?:a)\z`, Pattern: `\A(?:a)\z`, Options: string(o), Detail: "does not compile: " + err.Error()})
			continue
		}
		for _, in := range []string{"a", "aa", "a\n", "\na", ""} {
			ok, err := re.MatchString(in)
			c.Eval(1)
			if err != nil || ok != (in == "a") {
				c.Report(Violation{Leg: "anchor-sanity", Key: "anchor-sanity|" + string(o) + `|\A(?:a)\z`, Pattern: `\A(?:a)\z`, Options: string(o), Input: q(in), Detail: fmt.Sprintf("MatchString=%v err=%v", ok, err)})
				break
			}
		}
	}

	u1menu := c19SweepMenu
	if thorough {
		u1menu = c19SweepMenuThorough
	}
	fams := []c19Family{
		c19AlphaFamily(c, 0, full, "full menu"),
		c19AlphaFamily(c, 1, full, "full menu"),
		c19AlphaFamily(c, 2, full, "full menu"),
		c19UnicodeFamily(c, u1menu),
	}
	if thorough {
		fams = append(fams, c19AlphaFamily(c, 3, full, "full menu"), c19AlphaFamily(c, 4, []optSet{"", "x"}, "-,x"))
	} else {
		fams = append(fams, c19AlphaFamily(c, 3, c19SweepMenu, c19MenuString(c19SweepMenu)))
	}
	mixMenu := []optSet{"", "x", "2", "E"}
	fams = append(fams, c19AlphaFamilyOver(c, "MIX", c19MixAlphabet, 4, mixMenu, c19MenuString(mixMenu)), c19AlphaFamilyOver(c, "MIX", c19MixAlphabet, 5, mixMenu, c19MenuString(mixMenu)))
	if thorough {
		fams = append(fams, c19AlphaFamilyOver(c, "MIX", c19MixAlphabet, 6, []optSet{"", "x"}, "-,x"))
	}
	for _, f := range fams {
		c19RunFamily(c, f)
	}

	for _, s := range []string{"", "a.b", "# \t", "͸", "͸1", "\U000E0001", "x\x00 "} {
		c.Sample(map[string]any{"s": c19Quote(s), "escape": regexp2.Escape(s), "pattern": c19Pattern(s), "mutants_checked": func() (n int) {
			c19Mutants([]rune(s), false, func(string, []rune) bool { n++; return true })
			return
		}()})
	}
	if n := c19Suppressed.Load(); n > 0 {
		c.extra["failures_counted_but_not_reported_beyond_cap"] = n
		c.extra["report_cap"] = c19ReportCap
	}
	c.extra["alphabet"] = c19Quote(string(c19Alphabet))
	c.extra["alphabet_size"] = len(c19Alphabet)
	c.extra["option_menu_full"] = c19MenuString(full)
	c.extra["option_menu_sweep_quick"] = c19MenuString(c19SweepMenu)
	c.extra["option_menu_sweep_thorough"] = c19MenuString(c19SweepMenuThorough)
	c.extra["scalar_values"] = unicode.MaxRune + 1 - 0x800
}

func replayC19(v Violation) (bool, string) {
	var s []rune
	if xs, ok := v.Extra["s_runes"].([]any); ok {
		for _, x := range xs {
			s = append(s, rune(x.(float64)))
		}
	} else if str, ok := v.Extra["s"].(string); ok {
		u, err := strconv.Unquote(str)
		if err != nil {
			return false, "cannot decode the recorded string: " + err.Error()
		}
		s = []rune(u)
	} else if v.Leg == "anchor-sanity" {
		re, err := regexp2.Compile(v.Pattern, optSet(v.Options).compileOptions()...)
		if err != nil {
			return true, "does not compile: " + err.Error()
		}
		for _, in := range []string{"a", "aa", "a\n", "\na", ""} {
			if ok, err := re.MatchString(in); err != nil || ok != (in == "a") {
				return true, fmt.Sprintf("MatchString(%q)=%v err=%v", in, ok, err)
			}
		}
		return false, "anchors behave"
	} else {
		return false, "no recorded string (panic of a whole work item?): " + v.Detail
	}
	if v.Leg == "roundtrip" {
		if f := c19RoundTrip(string(s)); f != nil {
			return true, f.detail()
		}
		return false, fmt.Sprintf("Unescape(Escape(%s)) returns the original", c19Quote(string(s)))
	}
	var res *c19Fail
	func() {
		defer func() {
			if r := recover(); r != nil {
				res = &c19Fail{leg: "panic", mk: c19Lazy("%s", panicText(r))}
			}
		}()
		_, res = c19CheckOpts(s, optSet(v.Options))
	}()
	if res != nil {
		return true, res.leg + ": " + res.detail()
	}
	return false, fmt.Sprintf("\\A(?:Escape(%s))\\z compiles under %q, matches exactly s and rejects all one-rune mutants", c19Quote(string(s)), v.Options)
}
