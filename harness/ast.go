package main

// Pattern ASTs. Patterns are printed from these trees so that the reference models know the
// meaning of every pattern without re-parsing it.

import (
	"fmt"
	"strings"
)

type Kind int

const (
	KLit    Kind = iota // single literal rune
	KAny                // .
	KSet                // [ab] / [^a]
	KShort              // \w \d \s \W \D \S (Ch holds the letter)
	KAssert             // ^ $ \b \B \A \z \Z \G (Ch holds the symbol)
	KEmpty              // (?:)
	KCat
	KAlt
	KRep
	KCap     // ( ) or (?<name> )
	KGroup   // (?: ) kept explicit (only where a family wants it)
	KAtomic  // (?> )
	KLook    // (?= ) (?! ) (?<= ) (?<! )
	KRef     // \1 or \k<name>
	KCondRef // (?(1)X|Y)
	KCondExp // (?(?=C)X|Y) written (?(C)X|Y) with C printed as lookahead
	KOpt     // (?on-off:X)
)

type Node struct {
	K      Kind
	Ch     rune
	Set    []rune
	Neg    bool
	Kids   []*Node
	Min    int
	Max    int // -1 = inf
	Lazy   bool
	Cap    int    // capture number (KCap, KRef, KCondRef); assigned by numberCaps
	Name   string // optional group name (KCap) / referenced name (KRef)
	Ahead  bool
	Negate bool
	On     string // KOpt: letters switched on
	Off    string // KOpt: letters switched off
}

func (n *Node) size() int {
	s := 1
	for _, k := range n.Kids {
		s += k.size()
	}
	return s
}

func clone(n *Node) *Node {
	c := *n
	c.Kids = make([]*Node, len(n.Kids))
	for i, k := range n.Kids {
		c.Kids[i] = clone(k)
	}
	if n.Set != nil {
		c.Set = append([]rune{}, n.Set...)
	}
	return &c
}

func walk(n *Node, f func(*Node)) {
	f(n)
	for _, k := range n.Kids {
		walk(k, f)
	}
}

func hasKind(n *Node, k Kind) bool {
	found := false
	walk(n, func(x *Node) {
		if x.K == k {
			found = true
		}
	})
	return found
}

func hasAssert(n *Node, ch rune) bool {
	found := false
	walk(n, func(x *Node) {
		if x.K == KAssert && x.Ch == ch {
			found = true
		}
	})
	return found
}

// numberCaps assigns capture numbers the way the engine documents it: unnamed groups in order
// of their opening parenthesis, then named groups in order of first appearance. With
// explicitCapture, unnamed groups do not capture (Cap = 0). Returns the number of groups
// (including group 0). References by name are resolved to numbers.
func numberCaps(root *Node, explicitCapture bool) int {
	next := 1
	// ExplicitCapture can also be switched by inline option groups; the families that use the
	// n option only apply it globally, so a global flag suffices.
	if !explicitCapture {
		walk(root, func(x *Node) {
			if x.K == KCap && x.Name == "" {
				x.Cap = next
				next++
			}
		})
	} else {
		walk(root, func(x *Node) {
			if x.K == KCap && x.Name == "" {
				x.Cap = 0
			}
		})
	}
	names := map[string]int{}
	walk(root, func(x *Node) {
		if x.K == KCap && x.Name != "" {
			if v, ok := names[x.Name]; ok {
				x.Cap = v
			} else {
				names[x.Name] = next
				x.Cap = next
				next++
			}
		}
	})
	walk(root, func(x *Node) {
		if (x.K == KRef || x.K == KCondRef) && x.Name != "" {
			x.Cap = names[x.Name]
		}
	})
	return next
}

// printer options
type printOpts struct {
	spaced bool // IgnorePatternWhitespace spelling: blanks between tokens and a trailing comment
}

func (n *Node) String() string { return n.Print(printOpts{}) }

func (n *Node) Print(po printOpts) string {
	var sb strings.Builder
	n.print(&sb, 0, po)
	if po.spaced {
		sb.WriteString(" # c\n")
	}
	return sb.String()
}

func writeLit(sb *strings.Builder, r rune) {
	switch r {
	case '\n':
		sb.WriteString(`\n`)
	case '\\', '*', '+', '?', '|', '{', '[', '(', ')', '^', '$', '.', '#', ' ', ']', '}':
		sb.WriteByte('\\')
		sb.WriteRune(r)
	default:
		sb.WriteRune(r)
	}
}

// prec: 0 = top/alt context, 1 = cat context, 2 = quantifier operand
func (n *Node) print(sb *strings.Builder, prec int, po printOpts) {
	sp := func() {
		if po.spaced {
			sb.WriteByte(' ')
		}
	}
	switch n.K {
	case KLit:
		writeLit(sb, n.Ch)
	case KAny:
		sb.WriteByte('.')
	case KSet:
		sb.WriteByte('[')
		if n.Neg {
			sb.WriteByte('^')
		}
		for _, r := range n.Set {
			if r == '\n' {
				sb.WriteString(`\n`)
			} else if r == ']' || r == '\\' || r == '^' || r == '-' || r == ' ' || r == '#' {
				sb.WriteByte('\\')
				sb.WriteRune(r)
			} else {
				sb.WriteRune(r)
			}
		}
		sb.WriteByte(']')
	case KShort:
		sb.WriteByte('\\')
		sb.WriteRune(n.Ch)
	case KAssert:
		switch n.Ch {
		case '^', '$':
			sb.WriteRune(n.Ch)
		default:
			sb.WriteByte('\\')
			sb.WriteRune(n.Ch)
		}
	case KEmpty:
		sb.WriteString("(?:)")
	case KCat:
		if prec >= 2 {
			sb.WriteString("(?:")
		}
		for i, k := range n.Kids {
			if i > 0 {
				sp()
			}
			k.print(sb, 1, po)
		}
		if prec >= 2 {
			sb.WriteString(")")
		}
	case KAlt:
		if prec >= 1 {
			sb.WriteString("(?:")
		}
		for i, k := range n.Kids {
			if i > 0 {
				sp()
				sb.WriteByte('|')
				sp()
			}
			k.print(sb, 0, po)
		}
		if prec >= 1 {
			sb.WriteString(")")
		}
	case KRep:
		k := n.Kids[0]
		if k.K == KRep || k.K == KAssert {
			sb.WriteString("(?:")
			k.print(sb, 0, po)
			sb.WriteString(")")
		} else {
			k.print(sb, 2, po)
		}
		sb.WriteString(quantText(n.Min, n.Max, n.Lazy))
	case KCap:
		if n.Name != "" {
			sb.WriteString("(?<" + n.Name + ">")
		} else {
			sb.WriteByte('(')
		}
		n.Kids[0].print(sb, 0, po)
		sb.WriteByte(')')
	case KGroup:
		sb.WriteString("(?:")
		n.Kids[0].print(sb, 0, po)
		sb.WriteByte(')')
	case KAtomic:
		sb.WriteString("(?>")
		n.Kids[0].print(sb, 0, po)
		sb.WriteByte(')')
	case KLook:
		sb.WriteString("(?")
		if !n.Ahead {
			sb.WriteByte('<')
		}
		if n.Negate {
			sb.WriteByte('!')
		} else {
			sb.WriteByte('=')
		}
		n.Kids[0].print(sb, 0, po)
		sb.WriteByte(')')
	case KRef:
		if n.Name != "" {
			sb.WriteString(`\k<` + n.Name + `>`)
		} else {
			fmt.Fprintf(sb, "\\%d", n.Cap)
		}
	case KCondRef:
		if n.Name != "" {
			sb.WriteString("(?(" + n.Name + ")")
		} else {
			fmt.Fprintf(sb, "(?(%d)", n.Cap)
		}
		n.Kids[0].print(sb, 1, po)
		sb.WriteByte('|')
		n.Kids[1].print(sb, 1, po)
		sb.WriteByte(')')
	case KCondExp:
		sb.WriteString("(?(?=")
		n.Kids[0].print(sb, 0, po)
		sb.WriteString(")")
		n.Kids[1].print(sb, 1, po)
		sb.WriteByte('|')
		n.Kids[2].print(sb, 1, po)
		sb.WriteByte(')')
	case KOpt:
		sb.WriteString("(?" + n.On)
		if n.Off != "" {
			sb.WriteString("-" + n.Off)
		}
		sb.WriteByte(':')
		n.Kids[0].print(sb, 0, po)
		sb.WriteByte(')')
	}
}

func quantText(min, max int, lazy bool) string {
	var s string
	switch {
	case min == 0 && max == -1:
		s = "*"
	case min == 1 && max == -1:
		s = "+"
	case min == 0 && max == 1:
		s = "?"
	case max == -1:
		s = fmt.Sprintf("{%d,}", min)
	case min == max:
		s = fmt.Sprintf("{%d}", min)
	default:
		s = fmt.Sprintf("{%d,%d}", min, max)
	}
	if lazy {
		s += "?"
	}
	return s
}

// nullable: may the node match the empty string?
func nullable(n *Node) bool {
	switch n.K {
	case KLit, KAny, KSet, KShort:
		return false
	case KAssert, KEmpty, KLook, KRef:
		return true // a backreference may be empty
	case KCat:
		for _, k := range n.Kids {
			if !nullable(k) {
				return false
			}
		}
		return true
	case KAlt:
		for _, k := range n.Kids {
			if nullable(k) {
				return true
			}
		}
		return false
	case KCondRef:
		return nullable(n.Kids[0]) || nullable(n.Kids[1])
	case KCondExp:
		return nullable(n.Kids[1]) || nullable(n.Kids[2])
	case KRep:
		return n.Min == 0 || nullable(n.Kids[0])
	case KCap, KAtomic, KGroup, KOpt:
		return nullable(n.Kids[0])
	}
	return true
}

// reducibleToRep: is the node, after stripping (?: ) and (?> ) wrappers, itself a quantified
// item, or does it reduce to one? The engine coalesces adjacent items over the same atom
// (aa? -> a{1,2}, a*a -> a+, .+?. -> .{2,}?), so a group around such a run is a bare quantified
// item too ((?>aa?) -> (?>a{1,2})), and .NET-style engines multiply directly nested repeaters.
func reducibleToRep(n *Node) bool {
	for n.K == KAtomic || n.K == KGroup || n.K == KOpt {
		n = n.Kids[0]
	}
	if n.K == KRep {
		return true
	}
	if n.K == KCat {
		atomText := func(x *Node) (string, bool) {
			if x.K == KRep {
				x = x.Kids[0]
			}
			switch x.K {
			case KLit, KAny, KSet, KShort:
				return x.String(), true
			}
			return "", false
		}
		first, ok := atomText(n.Kids[0])
		if !ok {
			return false
		}
		hasRep := false
		for _, k := range n.Kids {
			t, ok := atomText(k)
			if !ok || t != first {
				return false
			}
			if k.K == KRep {
				hasRep = true
			}
		}
		return hasRep
	}
	return false
}

// inC01Fragment: every quantifier operand is non-nullable and not (reducible to) a quantified item.
func inC01Fragment(n *Node) bool {
	ok := true
	walk(n, func(x *Node) {
		if x.K == KRep {
			if nullable(x.Kids[0]) || reducibleToRep(x.Kids[0]) {
				ok = false
			}
		}
	})
	return ok
}

// rename applies a letter map (alphabet profile) to a copy of the tree.
func rename(n *Node, m map[rune]rune) *Node {
	c := clone(n)
	walk(c, func(x *Node) {
		if x.K == KLit {
			if v, ok := m[x.Ch]; ok {
				x.Ch = v
			}
		}
		for i, r := range x.Set {
			if v, ok := m[r]; ok {
				x.Set[i] = v
			}
		}
	})
	return c
}

func renameRunes(in []rune, m map[rune]rune) []rune {
	out := make([]rune, len(in))
	for i, r := range in {
		if v, ok := m[r]; ok {
			out[i] = v
		} else {
			out[i] = r
		}
	}
	return out
}

// ---- constructors ----

func lit(c rune) *Node              { return &Node{K: KLit, Ch: c} }
func anyc() *Node                   { return &Node{K: KAny} }
func set(neg bool, r ...rune) *Node { return &Node{K: KSet, Set: r, Neg: neg} }
func asrt(c rune) *Node             { return &Node{K: KAssert, Ch: c} }
func rep(k *Node, min, max int, lazy bool) *Node {
	return &Node{K: KRep, Min: min, Max: max, Lazy: lazy, Kids: []*Node{k}}
}
func capg(k *Node) *Node    { return &Node{K: KCap, Kids: []*Node{k}} }
func atomicg(k *Node) *Node { return &Node{K: KAtomic, Kids: []*Node{k}} }
func look(ahead, neg bool, k *Node) *Node {
	return &Node{K: KLook, Ahead: ahead, Negate: neg, Kids: []*Node{k}}
}

// cat concatenates, flattening nested concatenations and dropping nils.
func cat(parts ...*Node) *Node {
	var kids []*Node
	for _, x := range parts {
		if x == nil {
			continue
		}
		if x.K == KCat {
			kids = append(kids, x.Kids...)
		} else {
			kids = append(kids, x)
		}
	}
	if len(kids) == 1 {
		return kids[0]
	}
	if len(kids) == 0 {
		return &Node{K: KEmpty}
	}
	return &Node{K: KCat, Kids: kids}
}

func alt(parts ...*Node) *Node { return &Node{K: KAlt, Kids: parts} }

func litStr(s string) *Node {
	var kids []*Node
	for _, c := range s {
		kids = append(kids, lit(c))
	}
	return cat(kids...)
}

// kfNonwordLoopBeforeNonboundary recognises the shape of a recorded finding (known_findings.json,
// "auto-atomic before \B"): a greedy loop with a positive minimum over a single non-word character
// (or \W / \D) in a pattern that also contains \B. The main families skip this shape on alphabets
// with non-word pattern letters; the explicit sub-family NWB enumerates its members one by one.
func kfNonwordLoopBeforeNonboundary(n *Node) bool {
	if !hasAssert(n, 'B') {
		return false
	}
	found := false
	walk(n, func(x *Node) {
		if x.K == KRep && x.Min > 0 && !x.Lazy {
			k := x.Kids[0]
			if (k.K == KLit && !isWordSpec(k.Ch)) || (k.K == KShort && (k.Ch == 'W' || k.Ch == 'D')) {
				found = true
			}
		}
	})
	return found
}

// nwbFamily: the explicit members of the NWB sub-family (pattern letter N = a non-word character).
func nwbFamily() []Pat {
	var trees []*Node
	for _, q := range []quant{{1, -1, false}, {1, 2, false}, {2, -1, false}} {
		l := rep(lit('N'), q.min, q.max, q.lazy)
		trees = append(trees, cat(l, asrt('B')), cat(capg(l), asrt('B')), cat(lit('a'), l, asrt('B')), cat(l, asrt('B'), lit('a')), cat(l, asrt('B'), anyc()))
	}
	return finalize("NWB", trees, map[string]bool{}, false)
}
