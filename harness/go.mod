module rxv

go 1.25

require github.com/dlclark/regexp2/v2 v2.0.0

replace github.com/dlclark/regexp2/v2 => /repo
