package main

// C09: Replace, ReplaceFunc and Split are the fold of the match sequence.
//
// Reference model (DESIGN 3.3(d)), written without looking at /repo's parser state:
//   1. c09ParseRep: an independent tokenizer of replacement strings ($n, ${n}, ${name}, $$, $&, $`, $',
//      $+, $_; everything else literal; default rule "all digits are the number", ECMAScript rule
//      "longest valid group number");
//   2. c09Expand: expansion of the token list against one match of the reference chain
//      (FindRunesMatchStartingAt + FindNextMatch on the decoded runes, validated by C01/C03/C07);
//   3. c09Fold: input with the first `count` matches (scan order) substituted, everything else kept.
// Every (pattern, input, replacement, startAt, count) point of the enumeration is compared.

import (
	"encoding/base64"
	"fmt"
	"os"
	"strings"
	"sync"
	"time"
	"unicode"
	"unicode/utf8"

	regexp2 "github.com/dlclark/regexp2/v2"
)

func init() {
	register("C09", runC09)
	replayers["C09"] = replayC09
}

// ---------------------------------------------------------------------------------------------
// 1. reference parser of replacement strings

const (
	c09Lit   = iota // literal text
	c09Group        // group by number
	c09Left         // $`  text before the match
	c09Right        // $'  text after the match
	c09Last         // $+  the group with the highest number
	c09Whole        // $_  the whole input
)

type c09Tok struct {
	kind int
	lit  string
	num  int
}

// c09Groups is what the replacement grammar needs to know about the pattern.
type c09Groups struct {
	nums   []int          // group number of every slot of Match.Groups(), slot order
	slotOf map[int]int    // group number -> slot
	byName map[string]int // group name -> number (numeric names included)
	last   int            // slot of the group with the highest number
	ecma   bool
}

func c09GroupsOf(re *regexp2.Regexp, ecma bool) *c09Groups {
	g := &c09Groups{nums: re.GetGroupNumbers(), slotOf: map[int]int{}, byName: map[string]int{}, ecma: ecma}
	hi := -1
	for slot, n := range g.nums {
		g.slotOf[n] = slot
		if n > hi {
			hi, g.last = n, slot
		}
	}
	for _, name := range re.GetGroupNames() {
		if n := re.GroupNumberFromName(name); n >= 0 {
			g.byName[name] = n
		}
	}
	return g
}

func c09Digit(r rune) bool { return r >= '0' && r <= '9' }

// word character of the default (.NET) grammar: L, Mn, Nd, Pc, ZWJ, ZWNJ
func c09WordChar(r rune) bool {
	return unicode.IsLetter(r) || unicode.Is(unicode.Mn, r) || unicode.Is(unicode.Nd, r) || unicode.Is(unicode.Pc, r) || r == 0x200D || r == 0x200C
}

// ECMAScript identifier characters
func c09IDStart(r rune) bool {
	return r == '$' || r == '_' || unicode.IsLetter(r) || unicode.Is(unicode.Nl, r) || unicode.Is(unicode.Other_ID_Start, r)
}
func c09IDPart(r rune) bool {
	return c09IDStart(r) || r == 0x200C || r == 0x200D || unicode.Is(unicode.Mn, r) || unicode.Is(unicode.Mc, r) || unicode.Is(unicode.Nd, r) || unicode.Is(unicode.Pc, r) || unicode.Is(unicode.Other_ID_Continue, r)
}

const c09MaxInt32 = 1<<31 - 1

// c09ParseRep tokenizes a replacement string. modelled=false means the string leaves the part of the
// grammar this model describes (number overflow, ECMAScript \u escapes in names): such strings are not
// enumerated and only checked for "no panic".
func c09ParseRep(rep string, g *c09Groups) (toks []c09Tok, modelled bool) {
	s := []rune(rep)
	var lit []rune
	flush := func() {
		if len(lit) > 0 {
			toks = append(toks, c09Tok{kind: c09Lit, lit: string(lit)})
			lit = lit[:0]
		}
	}
	emit := func(t c09Tok) { flush(); toks = append(toks, t) }
	number := func(i int) (val, end int, ok bool) {
		v := 0
		j := i
		for j < len(s) && c09Digit(s[j]) {
			v = v*10 + int(s[j]-'0')
			if v > c09MaxInt32 {
				return 0, j, false
			}
			j++
		}
		return v, j, true
	}
	valid := func(n int) bool { _, ok := g.slotOf[n]; return ok }
	n := len(s)
	for i := 0; i < n; {
		if s[i] != '$' {
			lit = append(lit, s[i])
			i++
			continue
		}
		if i+1 == n { // a lone $ at the end
			lit = append(lit, '$')
			i++
			continue
		}
		c := s[i+1]
		switch {
		case c == '$':
			lit = append(lit, '$')
			i += 2
			continue
		case c == '&':
			emit(c09Tok{kind: c09Group, num: 0})
			i += 2
			continue
		case c == '`':
			emit(c09Tok{kind: c09Left})
			i += 2
			continue
		case c == '\'':
			emit(c09Tok{kind: c09Right})
			i += 2
			continue
		case c == '+':
			emit(c09Tok{kind: c09Last})
			i += 2
			continue
		case c == '_':
			emit(c09Tok{kind: c09Whole})
			i += 2
			continue
		case c09Digit(c):
			if g.ecma {
				// longest prefix of the digit run that is a group number
				best, bestEnd := -1, 0
				v := 0
				for j := i + 1; j < n && c09Digit(s[j]); j++ {
					v = v*10 + int(s[j]-'0')
					if v > c09MaxInt32 {
						return nil, false
					}
					if valid(v) {
						best, bestEnd = v, j+1
					}
				}
				if best >= 0 {
					emit(c09Tok{kind: c09Group, num: best})
					i = bestEnd
					continue
				}
			} else {
				v, end, ok := number(i + 1)
				if !ok {
					return nil, false
				}
				if valid(v) {
					emit(c09Tok{kind: c09Group, num: v})
					i = end
					continue
				}
			}
		case c == '{' && i+2 < n:
			d := s[i+2]
			if c09Digit(d) {
				v, end, ok := number(i + 2)
				if !ok {
					return nil, false
				}
				if end < n && s[end] == '}' && valid(v) {
					emit(c09Tok{kind: c09Group, num: v})
					i = end + 1
					continue
				}
			} else if !g.ecma && c09WordChar(d) {
				j := i + 2
				for j < n && c09WordChar(s[j]) {
					j++
				}
				if j < n && s[j] == '}' {
					if num, ok := g.byName[string(s[i+2:j])]; ok {
						emit(c09Tok{kind: c09Group, num: num})
						i = j + 1
						continue
					}
				}
			} else if g.ecma && d == '\\' {
				return nil, false
			} else if g.ecma && c09IDStart(d) {
				j := i + 2
				for j < n && c09IDPart(s[j]) {
					j++
				}
				if j < n && s[j] == '\\' {
					return nil, false
				}
				if j < n && s[j] == '}' {
					if num, ok := g.byName[string(s[i+2:j])]; ok {
						emit(c09Tok{kind: c09Group, num: num})
						i = j + 1
						continue
					}
				}
			}
		}
		// anything else: the $ is a literal character
		lit = append(lit, '$')
		i++
	}
	flush()
	return toks, true
}

// ---------------------------------------------------------------------------------------------
// 2. reference expansion against one match

// c09Expand writes the expansion of toks for match m (rune coordinates in R).
func c09Expand(sb *strings.Builder, toks []c09Tok, g *c09Groups, R []rune, m *mres) {
	group := func(slot int) {
		if slot < len(m.caps) && len(m.caps[slot]) > 0 {
			last := m.caps[slot][len(m.caps[slot])-1]
			sb.WriteString(string(R[last[0] : last[0]+last[1]]))
		}
	}
	for _, t := range toks {
		switch t.kind {
		case c09Lit:
			sb.WriteString(t.lit)
		case c09Group:
			group(g.slotOf[t.num])
		case c09Left:
			sb.WriteString(string(R[:m.idx]))
		case c09Right:
			sb.WriteString(string(R[m.idx+m.ln:]))
		case c09Last:
			group(g.last)
		case c09Whole:
			sb.WriteString(string(R))
		}
	}
}

// ---------------------------------------------------------------------------------------------
// 3. the fold

// c09Fold: R with the first `count` matches of the chain (scan order) replaced by exp(match).
func c09Fold(R []rune, chain []mres, count int, rtl bool, exp func(sb *strings.Builder, m *mres)) string {
	k := len(chain)
	if count >= 0 && count < k {
		k = count
	}
	var sb strings.Builder
	pos := 0
	for i := 0; i < k; i++ {
		m := &chain[i]
		if rtl {
			m = &chain[k-1-i] // text order
		}
		sb.WriteString(string(R[pos:m.idx]))
		exp(&sb, m)
		pos = m.idx + m.ln
	}
	sb.WriteString(string(R[pos:]))
	return sb.String()
}

// c09SplitWant: the documented Split convention of this library (split.go): count 0 -> nil, count 1 ->
// the input, otherwise the first `count` matches (all for -1) of the chain from the default start are
// processed; pieces in text order: gap, then every group 1..n of the match in Groups() order (an unset
// group contributes ""), ..., final remainder; no match -> the input.
func c09SplitWant(s string, R []rune, chain []mres, count int, rtl bool) []string {
	if count == 0 {
		return nil
	}
	if count == 1 || len(chain) == 0 {
		return []string{string(R)}
	}
	k := len(chain)
	if count > 0 && count < k {
		k = count
	}
	var out []string
	pos := 0
	for i := 0; i < k; i++ {
		m := &chain[i]
		if rtl {
			m = &chain[k-1-i]
		}
		out = append(out, string(R[pos:m.idx]))
		for gi := 1; gi < len(m.caps); gi++ {
			piece := ""
			if len(m.caps[gi]) > 0 {
				last := m.caps[gi][len(m.caps[gi])-1]
				piece = string(R[last[0] : last[0]+last[1]])
			}
			out = append(out, piece)
		}
		pos = m.idx + m.ln
	}
	return append(out, string(R[pos:]))
}

// ---------------------------------------------------------------------------------------------
// replacement menu

var c09Tokens = []string{"x", "$0", "$1", "$2", "$10", "${1}", "${n}", "${zz}", "$$", "$&", "$`", "$'", "$+", "$_", "$", "${", "$x"}

// c09RepMenu: every concatenation of at most k tokens (distinct strings, shortest first).
func c09RepMenu(k int) []string { return c09MenuOf(c09Tokens, k) }

// c09LitTokens: replacement text that would mean something in a *pattern* (case, blanks, comments,
// escapes, parentheses); in a replacement it is plain text whatever the pattern options are.
var c09LitTokens = []string{"X", " ", "#c", "\\1", "(", "\n", "é", "$1", "$&"}

func c09MenuOf(tokens []string, k int) []string {
	seen := map[string]bool{"": true}
	out := []string{""}
	prev := []string{""}
	for l := 1; l <= k; l++ {
		var cur []string
		for _, p := range prev {
			for _, t := range tokens {
				cur = append(cur, p+t)
			}
		}
		for _, s := range cur {
			if !seen[s] {
				seen[s] = true
				out = append(out, s)
			}
		}
		prev = cur
	}
	return out
}

// ---------------------------------------------------------------------------------------------
// the check of one pattern

type c09Params struct {
	maxTok   int  // replacement strings of at most this many tokens
	funcTok  int  // ReplaceFunc is run for replacement strings of at most this many tokens
	cache    int  // replacement cache entries; c09CacheDefault = library default
	ecma     bool // ECMAScript replacement grammar
	splitToo bool
	order    bool // cache-order leg instead of the argument product
	lits     bool // menu of pattern-looking literals instead of the $-token menu
}

const c09CacheDefault = -999

var c09Counts = []int{-1, 0, 1, 2, 3}
var c09SplitCounts = []int{-1, 0, 1, 2, 3, 4, 5}

type c09Rep struct {
	text string
	toks []c09Tok
	ntok int // number of menu tokens (1 for single tokens, used for the ReplaceFunc leg)
	kind string
}

// c09Pat is a compiled pattern with its reference data.
type c09Pat struct {
	re   *regexp2.Regexp
	src  string
	opts optSet
	g    *c09Groups
	rtl  bool
	par  c09Params
}

// c09Where describes the point being evaluated (for panic reports and replay).
type c09Where struct {
	call    string
	rep     string
	startAt int
	count   int
}

func (p *c09Pat) extra(s string, w c09Where) map[string]any {
	return map[string]any{"input_b64": base64.StdEncoding.EncodeToString([]byte(s)), "call": w.call, "replacement": w.rep, "startAt": w.startAt, "count": w.count, "cache": p.par.cache}
}

func (p *c09Pat) vio(leg, s string, w c09Where, format string, a ...any) *Violation {
	return &Violation{Leg: leg, Input: q(s), Detail: fmt.Sprintf("%s(input=%s, replacement=%q, startAt=%d, count=%d): ", w.call, q(s), w.rep, w.startAt, w.count) + fmt.Sprintf(format, a...), Extra: p.extra(s, w)}
}

// c09Decoded: the library converts text it has decoded to U+FFFD per invalid byte and passes undecoded
// input through raw; results are compared as decoded text.
func c09Decoded(s string, valid bool) string {
	if valid {
		return s
	}
	return string([]rune(s))
}

// chainFrom returns the reference chain from rune offset k (-1 = default start).
func (p *c09Pat) chainFrom(R []rune, k int) (chainRes, bool) {
	first, err := p.re.FindRunesMatchStartingAt(R, k)
	ch := walkChain(p.re, first, err, len(R))
	if ch.err != "" || ch.nterm {
		return ch, false
	}
	// the fold needs disjoint matches in scan order (C07's property)
	for i := 1; i < len(ch.ms); i++ {
		a, b := ch.ms[i-1], ch.ms[i]
		if (!p.rtl && b.idx < a.idx+a.ln) || (p.rtl && b.idx+b.ln > a.idx) {
			return ch, false
		}
	}
	return ch, true
}

type c09Stats struct {
	evals, nontrivial int64
	outcomes          map[string]int64
	count0            *Violation // first witness of the count=0 cluster (reported under one key)
}

func (st *c09Stats) out(k string) { st.outcomes[k]++ }

// c09CheckInput evaluates every (replacement, startAt, count) point and Split for one input.
// only != nil restricts the evaluation to one point (replay).
func (p *c09Pat) c09CheckInput(s string, reps []c09Rep, st *c09Stats, cur *c09Where, only *c09Where) *Violation {
	R := []rune(s)
	valid := utf8.ValidString(s)
	off := independentOffsets(s)
	runeAt := map[int]int{}
	for i, o := range off {
		runeAt[o] = i
	}
	dec := string(R)

	// ---- Replace / ReplaceFunc
	for startAt := -1; startAt <= len(s)+1; startAt++ {
		if only != nil && (only.call == "Split" || only.startAt != startAt) {
			continue
		}
		k, boundary := -1, true
		if startAt >= 0 {
			k, boundary = runeAt[startAt]
		}
		if startAt > len(s) || !boundary {
			// documented argument errors: an error is the expected answer (count 0 answers before the
			// arguments are looked at: that is the count=0 cluster)
			for _, cnt := range []int{-1, 1} {
				if only != nil && only.count != cnt {
					continue
				}
				*cur = c09Where{"Replace", "x", startAt, cnt}
				_, e1 := p.re.Replace(s, "x", startAt, cnt)
				*cur = c09Where{"ReplaceFunc", "x", startAt, cnt}
				_, e2 := p.re.ReplaceFunc(s, func(regexp2.Match) string { return "x" }, startAt, cnt)
				st.evals += 2
				if e1 == nil || e2 == nil {
					what := "inside a rune"
					if startAt > len(s) {
						what = "beyond the end of the input"
					}
					return p.vio("startat-argument", s, *cur, "startAt is %s; documented answer is an error, got Replace err=%v ReplaceFunc err=%v", what, e1, e2)
				}
				st.out("argument error returned (startAt beyond end / inside a rune)")
			}
			continue
		}
		ch, ok := p.chainFrom(R, k)
		if !ok {
			return p.vio("chain", s, c09Where{"FindRunesMatchStartingAt+FindNextMatch", "", startAt, -1}, "reference chain unusable: err=%q nonterminating=%v chain=%s", ch.err, ch.nterm, chainString(ch.ms))
		}
		chain := ch.ms
		for ri := range reps {
			rp := &reps[ri]
			if only != nil && only.rep != rp.text {
				continue
			}
			exp := func(sb *strings.Builder, m *mres) { c09Expand(sb, rp.toks, p.g, R, m) }
			for _, cnt := range c09Counts {
				if only != nil && only.count != cnt {
					continue
				}
				want := c09Fold(R, chain, cnt, p.rtl, exp)
				nsub := len(chain)
				if cnt >= 0 && cnt < nsub {
					nsub = cnt
				}
				if only == nil || only.call == "Replace" {
					*cur = c09Where{"Replace", rp.text, startAt, cnt}
					got, err := p.re.Replace(s, rp.text, startAt, cnt)
					st.evals++
					if nsub > 0 {
						st.nontrivial++
					}
					if err != nil {
						return p.vio("replace-error", s, *cur, "unexpected error %v (reference result %q)", err, want)
					}
					if c09Decoded(got, valid) != want {
						if cnt == 0 {
							if st.count0 == nil {
								st.count0 = p.vio("replace-count0", s, *cur, "got %q, want the input unchanged (no match is to be substituted)", got)
							}
						} else {
							return p.vio("replace", s, *cur, "got %q, reference fold gives %q (chain %s, replacement tokens %s)", got, want, chainString(chain), c09TokString(rp.toks))
						}
					}
					// replacing every match with itself is the identity, whatever the chain is
					if (rp.text == "$&" || rp.text == "$0") && cnt != 0 && c09Decoded(got, valid) != dec {
						return p.vio("identity", s, *cur, "got %q, want the input", got)
					}
				}
				if (only == nil && rp.ntok <= p.par.funcTok) || (only != nil && only.call == "ReplaceFunc") {
					*cur = c09Where{"ReplaceFunc", rp.text, startAt, cnt}
					calls := 0
					got, err := p.re.ReplaceFunc(s, func(m regexp2.Match) string {
						calls++
						mr := fromMatch(&m, nil)
						var sb strings.Builder
						c09Expand(&sb, rp.toks, p.g, R, &mr)
						return sb.String()
					}, startAt, cnt)
					st.evals++
					if nsub > 0 {
						st.nontrivial++
					}
					if err != nil {
						return p.vio("replacefunc-error", s, *cur, "unexpected error %v (reference result %q)", err, want)
					}
					if c09Decoded(got, valid) != want {
						if cnt == 0 {
							if st.count0 == nil {
								st.count0 = p.vio("replace-count0", s, *cur, "got %q, want the input unchanged (no match is to be substituted)", got)
							}
						} else {
							return p.vio("replacefunc", s, *cur, "with an evaluator computing the reference expansion got %q, reference fold gives %q (chain %s, evaluator called %d times)", got, want, chainString(chain), calls)
						}
					}
				}
				if only == nil && ri == 0 {
					switch {
					case nsub == 0:
						st.out("substitutions=0")
					case nsub == 1:
						st.out("substitutions=1")
					case nsub == 2:
						st.out("substitutions=2")
					default:
						st.out("substitutions>=3")
					}
					if nsub > 0 && nsub < len(chain) {
						st.out("count cuts the chain short")
					}
				}
			}
		}
	}

	// ---- argument error count < -1 (documented: an error)
	if only == nil || only.count < -1 {
		*cur = c09Where{"Replace", "x", -1, -2}
		_, e1 := p.re.Replace(s, "x", -1, -2)
		*cur = c09Where{"ReplaceFunc", "x", -1, -2}
		_, e2 := p.re.ReplaceFunc(s, func(regexp2.Match) string { return "x" }, -1, -2)
		*cur = c09Where{"Split", "", -1, -2}
		_, e3 := p.re.Split(s, -2)
		st.evals += 3
		if e1 == nil || e2 == nil || e3 == nil {
			return p.vio("count-argument", s, *cur, "count=-2: documented answer is an error, got Replace err=%v ReplaceFunc err=%v Split err=%v", e1, e2, e3)
		}
		st.out("argument error returned (count < -1)")
	}

	// ---- Split
	if !p.par.splitToo || (only != nil && only.call != "Split") {
		return nil
	}
	ch, ok := p.chainFrom(R, -1)
	if !ok {
		return p.vio("chain", s, c09Where{"FindRunesMatch+FindNextMatch", "", -1, -1}, "reference chain unusable: err=%q nonterminating=%v chain=%s", ch.err, ch.nterm, chainString(ch.ms))
	}
	for _, cnt := range c09SplitCounts {
		if only != nil && only.count != cnt {
			continue
		}
		*cur = c09Where{"Split", "", -1, cnt}
		got, err := p.re.Split(s, cnt)
		st.evals++
		if err != nil {
			return p.vio("split-error", s, *cur, "unexpected error %v", err)
		}
		want := c09SplitWant(s, R, ch.ms, cnt, p.rtl)
		same := len(got) == len(want)
		for i := 0; same && i < len(got); i++ {
			same = c09Decoded(got[i], valid) == want[i]
		}
		if !same {
			return p.vio("split", s, *cur, "got %q, want %q = text between the first matches of chain %s interleaved with groups 1..%d", got, want, chainString(ch.ms), len(p.g.nums)-1)
		}
		if cnt != 0 && cnt != 1 && len(ch.ms) > 0 {
			st.nontrivial++
			// the law itself, evaluated on the returned pieces: gaps re-joined with the matched texts rebuild the input
			k := len(ch.ms)
			if cnt > 0 && cnt < k {
				k = cnt
			}
			stride := len(p.g.nums)
			var sb strings.Builder
			for i := 0; i <= k; i++ {
				sb.WriteString(c09Decoded(got[i*stride], valid))
				if i < k {
					m := ch.ms[i]
					if p.rtl {
						m = ch.ms[k-1-i]
					}
					sb.WriteString(string(R[m.idx : m.idx+m.ln]))
				}
			}
			if sb.String() != dec {
				return p.vio("split-rejoin", s, *cur, "pieces %q re-joined with the matched texts give %q, not the input", got, sb.String())
			}
			if only == nil {
				if len(p.g.nums) > 1 {
					st.out("split with captured groups")
				} else {
					st.out("split without groups")
				}
			}
		}
	}
	return nil
}

// c09CacheOrder: the per-Regexp cache of parsed replacements must be invisible. For every ordered pair
// (r1, r2) of distinct replacement strings the calls Replace(r1), Replace(r2), Replace(r1) are made on
// the same Regexp (the third call hits an entry that is not the most recent one when the cache holds
// at least two entries, and a just-evicted one when it holds one); every answer must equal the fold.
// seq != nil replays one recorded sequence.
func (p *c09Pat) c09CacheOrder(s string, reps []c09Rep, st *c09Stats, cur *c09Where, seq []string) *Violation {
	R := []rune(s)
	valid := utf8.ValidString(s)
	ch, ok := p.chainFrom(R, -1)
	if !ok {
		return p.vio("chain", s, c09Where{"FindRunesMatch+FindNextMatch", "", -1, -1}, "reference chain unusable: err=%q nonterminating=%v chain=%s", ch.err, ch.nterm, chainString(ch.ms))
	}
	want := map[string]string{}
	for i := range reps {
		rp := &reps[i]
		want[rp.text] = c09Fold(R, ch.ms, -1, p.rtl, func(sb *strings.Builder, m *mres) { c09Expand(sb, rp.toks, p.g, R, m) })
	}
	try := func(order [3]string) *Violation {
		for step, r := range order {
			*cur = c09Where{"Replace", r, -1, -1}
			got, err := p.re.Replace(s, r, -1, -1)
			st.evals++
			if len(ch.ms) > 0 {
				st.nontrivial++
			}
			if err != nil || c09Decoded(got, valid) != want[r] {
				v := p.vio("replace-cache", s, *cur, "call %d of the sequence Replace(%q), Replace(%q), Replace(%q) on one Regexp (replacement cache entries: %s): got %q err=%v, reference fold gives %q", step+1, order[0], order[1], order[2], c09CacheName(p.par.cache), got, err, want[r])
				v.Extra["sequence"] = order[:]
				return v
			}
		}
		return nil
	}
	if seq != nil {
		if len(seq) != 3 {
			return nil
		}
		return try([3]string{seq[0], seq[1], seq[2]})
	}
	for i := range reps {
		for j := range reps {
			if i != j {
				if v := try([3]string{reps[i].text, reps[j].text, reps[i].text}); v != nil {
					return v
				}
			}
		}
	}
	st.out("cache-order sequences completed for an input")
	return nil
}

func c09CacheName(n int) string {
	if n == c09CacheDefault {
		return "default (16)"
	}
	return fmt.Sprint(n)
}

func c09TokString(toks []c09Tok) string {
	var parts []string
	for _, t := range toks {
		switch t.kind {
		case c09Lit:
			parts = append(parts, fmt.Sprintf("lit%q", t.lit))
		case c09Group:
			parts = append(parts, fmt.Sprintf("group#%d", t.num))
		case c09Left:
			parts = append(parts, "left")
		case c09Right:
			parts = append(parts, "right")
		case c09Last:
			parts = append(parts, "lastgroup")
		case c09Whole:
			parts = append(parts, "input")
		}
	}
	return "[" + strings.Join(parts, " ") + "]"
}

func c09Compile(src string, o optSet, par c09Params) (*c09Pat, error) {
	var extra []regexp2.CompileOption
	if par.cache != c09CacheDefault {
		extra = append(extra, regexp2.OptionMaxCachedReplacerDataEntries(par.cache))
	}
	re, err := compileWith(src, o, extra...)
	if err != nil {
		return nil, err
	}
	par.ecma = o.has('E')
	return &c09Pat{re: re, src: src, opts: o, g: c09GroupsOf(re, par.ecma), rtl: re.RightToLeft(), par: par}, nil
}

// c09Reps parses the menu for one pattern with the reference parser.
func (p *c09Pat) c09Reps(menu []string, ntok map[string]int, st *c09Stats) []c09Rep {
	out := make([]c09Rep, 0, len(menu))
	for _, text := range menu {
		toks, ok := c09ParseRep(text, p.g)
		if !ok {
			continue
		}
		rp := c09Rep{text: text, toks: toks, ntok: ntok[text]}
		if st != nil {
			for _, t := range toks {
				switch t.kind {
				case c09Group:
					st.out("rep token: group reference")
				case c09Lit:
					if strings.Contains(t.lit, "$") {
						st.out("rep token: literal text containing $")
					} else {
						st.out("rep token: plain literal")
					}
				default:
					st.out("rep token: special ($` $' $+ $_)")
				}
			}
		}
		out = append(out, rp)
	}
	return out
}

// ---------------------------------------------------------------------------------------------
// families

// c09GroupsLite: named / numbered / sparse / duplicate-name groups (text patterns).
func c09GroupsLite(thorough bool) []Pat {
	opens := []string{"(", "(?<n>", "(?<zz>", "(?<2>", "(?<10>", "(?<5>", "(?:"}
	item := func(bodies ...string) (items []string) {
		for _, o := range opens {
			for _, b := range bodies {
				items = append(items, o+b+")")
			}
		}
		return
	}
	seen := map[string]bool{}
	var out []Pat
	add := func(s string) {
		if !seen[s] {
			seen[s] = true
			out = append(out, Pat{Src: s, Fam: "GROUPS-lite"})
		}
	}
	for _, x := range item("a", "b", "a*") {
		add(x)
		add(x + "?")
		add(x + "+")
	}
	firsts, seconds := item("a", "a*"), item("b")
	if thorough {
		firsts, seconds = item("a", "b", "a*", ".?"), item("a", "b", "a*")
	}
	for _, x := range firsts {
		for _, y := range seconds {
			add(x + y)
			add(x + "|" + y)
			add(x + "?" + y)
			add(x[:len(x)-1] + y + ")") // nested
		}
	}
	for _, s := range []string{
		`(a)?(b)?(c)?(a)?(b)?(c)?(a)?(b)?(c)?(a)?(b)?`, // 11 groups: $10 and $1 both valid
		`(a)|(b)|(c)|(a)|(b)|(c)|(a)|(b)|(c)|(.)`,      // exactly 10 groups
		`(?<n>a)(?<n>b)?(?<zz>c)?`, `(?<n>a)|(?<n>b)|(c)`, `((?<n>a)|(?<1>b))+`, `(?<n>.)(?<m>.)?\k<n>`, `(?'n'a)(?<x>b)?`,
		`(?<1>a)(?<1>b)?`, `(a)(?<1>b)`, `(?<3>a)(b)(c)?`, `(?<n>(?<zz>a)b?)+`, `(?<a>a)(?<b>b)?(?<c>c)?`, `(?<_1>a)(?<n1>b)?`,
		`(?<10>a)(?<1>b)?(c)?`, `(?<n>)`, `(?<n>a*)(?<zz>b*)`, `(?<x>.)`, `(?<é>a)(?<n>b)?`,
	} {
		add(s)
	}
	return out
}

// c09Nullable: hand list of patterns whose empty matches decide the fold.
func c09Nullable() []Pat {
	var out []Pat
	for _, s := range []string{
		`a*`, `(?:)`, `\b`, `(?=a)`, `a*?`, `(a*)`, `(a)*`, `(a*)*`, `a?`, `(a|)`, `(|a)`, `\B`, `^`, `$`, `\G`, `(?<=a)`, `(?!a)`, `(?<!a)`, `\z`, `\A`,
		`a*b*`, `(a*)(b*)`, `(a)?(b)?`, `[ab]*`, `.*`, `.*?`, `(.*)`, `(.)*`, `(?=(a))`, `(?<=(a))`, `\b(a)?`, `(?<n>a*)`, `(?<n>a)*`, `(a*)|b`, `b|(a*)`,
		`(?>a*)`, `a{0,2}`, `(a{0,2})`, `(?:a|b)*`, `((a)|(b))*`, `\Ga*`, `\G(a)?`, `(?<=\G.)`, `a*$`, `^a*`, `(?=.)`, `(?<=.)`, `(a*)+`, `(a+)*`, `()`, `()()`,
		`(?<o>a)*(?<-o>b)*`, `(\b)`, `(^)|(a)`, `a|()`, `.`, `a`, `(a)`, `ab`, `(a)(b)`, `a+`, `(a+)`, `[^a]`, `(.)(.)?`, `(.)\1`, `(a)|b`,
	} {
		out = append(out, Pat{Src: s, Fam: "NULLABLE"})
	}
	return out
}

// c09LoopLite: the LOOP family restricted to single-item bodies.
func c09LoopLite() []Pat {
	items := seqItems()
	counts := []quant{{0, 1, false}, {0, -1, false}, {1, -1, false}, {2, 2, false}, {1, 2, false}, {0, -1, true}, {1, 2, true}}
	sufs := []*Node{nil, lit('b'), asrt('$')}
	var trees []*Node
	for _, b := range items {
		for w := 0; w < 2; w++ {
			var g *Node
			if w == 0 {
				g = capg(b)
			} else {
				g = &Node{K: KGroup, Kids: []*Node{b}}
			}
			for _, c := range counts {
				for _, sf := range sufs {
					trees = append(trees, cat(rep(g, c.min, c.max, c.lazy), sf))
				}
			}
		}
	}
	return finalize("LOOP-lite", trees, map[string]bool{}, false)
}

// c09CorpusLite: the pattern literals of the repository's own tests (usable ones).
func c09CorpusLite() []Pat {
	ok := map[string]bool{}
	for _, p := range corpusPatterns() {
		ok[p.Src] = true
	}
	var out []Pat
	for _, p := range corpusEverything() {
		if p.Fam == "CORPUS:tests" && ok[p.Src] && len(p.Src) <= 40 {
			out = append(out, Pat{Src: p.Src, Fam: "CORPUS-lite"})
		}
	}
	return out
}

var c09ProfMB = profile{name: "PM-é+😀", m: map[rune]rune{'a': 'é', 'b': 0x1F600}, input: []rune{'a', 'b', 'c'}}

// ---------------------------------------------------------------------------------------------

func runC09(c *Ctx) {
	c.Level = "model_checking"
	thorough := c.Tier == "thorough"
	if thorough {
		c.SetBudget(30 * time.Minute)
	} else {
		c.SetBudget(240 * time.Second)
	}
	c.Rule = "for every pattern of the listed families x {left-to-right, RightToLeft} x every input up to the bound (ASCII; é/😀; é with the invalid byte 0xFF; truncated E2 82) x every replacement string of at most k tokens over {x $0 $1 $2 $10 ${1} ${n} ${zz} $$ $& $` $' $+ $_ $ ${ $x} x every byte startAt in [-1, len+1] x count in {-1,0,1,2,3}: Replace must equal the reference fold (input with the first count matches of the FindRunesMatchStartingAt/FindNextMatch chain, in scan order, replaced by the reference expansion of an independently parsed replacement, all other text kept); ReplaceFunc with an evaluator computing the reference expansion from the Match it is handed must give the same string; $& / $0 must give the input; Split(count in {-1,0,1,2,3,4,5}) must equal gaps interleaved with groups 1..n and its gaps re-joined with the matched texts must rebuild the input; startAt inside a rune or beyond the end and count < -1 must answer with an error (never a panic); cache-order legs: for every ordered pair of distinct replacement strings the sequence Replace(r1), Replace(r2), Replace(r1) on one Regexp compiled with replacement-cache sizes {default, 0, 1, 2} must give the fold each time; literal legs: replacement text that looks like pattern syntax (upper case, blank, #comment, \\1, parenthesis) stays literal under the pattern options i, x, RightToLeft. Results on inputs with invalid bytes are compared as decoded text. Non-trivial = calls in which at least one substitution / split happened."
	c.Assume("the reference chain (FindRunesMatchStartingAt + FindNextMatch on the decoded runes) is itself checked by C01/C03/C07; group numbers/names come from GetGroupNumbers/GetGroupNames/GroupNumberFromName, checked by C17")
	c.Assume("$+ is the group with the highest group number (.NET: the last slot); an unset group expands to the empty string; a group's value is its last capture")
	c.Assume("Split conventions are the documented ones of split.go: count 0 -> nil, count 1 -> the input, count k>=2 -> k matches processed, every group of a match is listed (unset -> \"\"), pieces in text order for both directions")
	c.Assume("count=0: the property's reading is 'no substitution, input returned' (.NET returns the input); all count=0 disagreements are reported under the single key replace-count0|*")

	menu1, menu2 := c09RepMenu(1), c09RepMenu(2)
	menu3 := menu2
	if thorough {
		menu3 = c09RepMenu(3)
	}
	ntok := map[string]int{}
	for _, s := range menu3 {
		ntok[s] = 3
	}
	for _, s := range menu2 {
		ntok[s] = 2
	}
	for _, s := range menu1 {
		ntok[s] = 1
	}
	menus := map[int][]string{1: menu1, 2: menu2, 3: menu3}
	litMenu := c09MenuOf(c09LitTokens, 2)
	for _, s := range litMenu {
		if _, ok := ntok[s]; !ok {
			ntok[s] = 1
		}
	}
	c.extra["replacement_strings"] = map[string]int{"<=1 token": len(menu1), "<=2 tokens": len(menu2), "<=3 tokens": len(menu3)}

	var jobs []job
	var pars []c09Params
	add := func(fam string, pats []Pat, o optSet, pr profile, L int, par c09Params) {
		par.splitToo = true
		tag := fmt.Sprintf(" rep<=%dtok func<=%dtok", par.maxTok, par.funcTok)
		if par.order {
			tag = fmt.Sprintf(" cache-order pairs of rep<=%dtok", par.maxTok)
		}
		if par.lits {
			tag = " rep<=2 pattern-looking literals"
		}
		if par.cache != c09CacheDefault {
			tag += fmt.Sprintf(" cache=%d", par.cache)
		}
		jobs = append(jobs, job{fam: fam, pats: pats, opts: o, prof: pr, maxL: L, tag: tag})
		pars = append(pars, par)
	}
	D := c09CacheDefault
	core3 := coreFamily("CORE", grammarCore(), 3)
	nullable := c09Nullable()
	groups := c09GroupsLite(thorough)
	loopLite := c09LoopLite()
	bal := balFamily()
	corpus := c09CorpusLite()
	P := func(tok, fn int) c09Params { return c09Params{maxTok: tok, funcTok: fn, cache: D} }
	if !thorough {
		// about 5e8 evaluations (1.7 us of CPU each on the build machine: ~55 s on 16 idle cores); breadth first
		add("CORE<=3", core3, "", profP0, 3, P(1, 1))
		add("CORE<=3", core3, "R", profP0, 2, P(1, 1))
		add("CORE<=3", core3, "", profP45, 2, P(1, 1))
		add("LOOP-lite", loopLite, "", profP0, 3, P(1, 1))
		add("LOOP-lite", loopLite, "R", profP0, 2, P(1, 1))
		add("NULLABLE", nullable, "", profP5, 3, P(1, 1))
		add("CORPUS-lite", corpus, "", profCorpus, 2, P(1, 1))
		add("CORPUS-lite", corpus, "R", profCorpus, 2, P(1, 1))
		for _, o := range []optSet{"", "R"} {
			add("NULLABLE", nullable, o, profP0, 3, P(2, 2))
			add("NULLABLE", nullable, o, profP0, 4, P(1, 1))
			add("NULLABLE", nullable, o, profP45, 3, P(2, 1))
			add("NULLABLE", nullable, o, c09ProfMB, 2, P(2, 1))
			add("BAL", bal, o, profP0, 3, P(2, 1))
		}
		for _, cs := range []int{D, 0, 1, 2} {
			add("NULLABLE", nullable, "", profP0, 2, c09Params{maxTok: 1, cache: cs, order: true})
			add("GROUPS-lite", groups, "", profP0, 2, c09Params{maxTok: 1, cache: cs, order: true})
		}
		add("NULLABLE", nullable, "R", profP0, 2, c09Params{maxTok: 1, cache: D, order: true})
		add("GROUPS-lite", groups, "", profP0, 2, P(2, 1))
		add("GROUPS-lite", groups, "", profP0, 3, P(1, 1))
		add("GROUPS-lite", groups, "R", profP0, 2, P(2, 1))
		add("GROUPS-lite", groups, "E", profP0, 2, P(2, 1))
		add("NULLABLE", nullable, "E", profP0, 3, P(2, 1))
		for _, cs := range []int{0, 1} {
			add("NULLABLE", nullable, "", profP0, 3, c09Params{maxTok: 2, funcTok: 0, cache: cs})
			add("GROUPS-lite", groups, "", profP0, 2, c09Params{maxTok: 2, funcTok: 0, cache: cs})
		}
		for _, o := range []optSet{"", "i", "x", "ix", "R", "Ri"} {
			add("NULLABLE", nullable, o, profP0, 2, c09Params{funcTok: 1, cache: D, lits: true})
		}
	} else {
		// about 1.1e10 evaluations (~20 min on 16 idle cores)
		groupsQ := c09GroupsLite(false)
		core4 := coreFamily("CORE", grammarCore(), 4)
		for _, o := range []optSet{"", "R"} {
			add("NULLABLE", nullable, o, profP0, 3, P(3, 2))
			add("NULLABLE", nullable, o, profP0, 4, P(2, 2))
			add("NULLABLE", nullable, o, profP45, 4, P(2, 2))
			add("NULLABLE", nullable, o, c09ProfMB, 3, P(2, 2))
			add("NULLABLE", nullable, o, profP5, 3, P(2, 1))
			add("BAL", bal, o, profP0, 5, P(2, 2))
		}
		for _, cs := range []int{D, 0, 1, 2, 3} {
			add("NULLABLE", nullable, "", profP0, 3, c09Params{maxTok: 1, cache: cs, order: true})
			add("NULLABLE", nullable, "R", profP0, 2, c09Params{maxTok: 1, cache: cs, order: true})
			add("GROUPS-lite", groups, "", profP0, 2, c09Params{maxTok: 1, cache: cs, order: true})
		}
		add("NULLABLE", nullable, "", profP0, 1, c09Params{maxTok: 2, cache: D, order: true})
		add("GROUPS-lite", groups, "", profP0, 3, P(2, 1))
		add("GROUPS-lite", groups, "R", profP0, 3, P(2, 1))
		add("GROUPS-lite (quick set)", groupsQ, "", profP0, 2, P(3, 1))
		add("GROUPS-lite", groups, "E", profP0, 2, P(2, 1))
		add("GROUPS-lite (quick set)", groupsQ, "RE", profP0, 2, P(2, 1))
		add("NULLABLE", nullable, "E", profP0, 4, P(2, 1))
		for _, cs := range []int{0, 1} {
			add("NULLABLE", nullable, "", profP0, 4, c09Params{maxTok: 2, funcTok: 0, cache: cs})
			add("NULLABLE", nullable, "R", profP0, 3, c09Params{maxTok: 2, funcTok: 0, cache: cs})
			add("GROUPS-lite (quick set)", groupsQ, "", profP0, 3, c09Params{maxTok: 2, funcTok: 0, cache: cs})
		}
		for _, o := range []optSet{"", "i", "x", "ix", "R", "Ri", "Rx"} {
			add("NULLABLE", nullable, o, profP0, 3, c09Params{funcTok: 1, cache: D, lits: true})
			add("GROUPS-lite (quick set)", groupsQ, o, profP0, 2, c09Params{funcTok: 1, cache: D, lits: true})
		}
		for _, o := range []optSet{"", "R"} {
			add("CORE<=3", core3, o, profP0, 3, P(2, 1))
			add("CORE<=3", core3, o, profP0, 4, P(1, 1))
			add("CORE<=3", core3, o, profP45, 3, P(1, 1))
			add("LOOP-lite", loopLite, o, profP0, 3, P(2, 1))
			add("CORPUS-lite", corpus, o, profCorpus, 2, P(2, 1))
			add("CORE<=4", core4, o, profP0, 2, P(1, 1))
		}
		add("LOOP", loopFamily(true), "", profP0, 2, P(1, 0))
	}
	if f := os.Getenv("VERIF_C09_ONLY"); f != "" { // development aid: run the jobs whose label contains f
		var js []job
		var ps []c09Params
		for i := range jobs {
			if strings.Contains(fmt.Sprintf("%s opts=%q %s L<=%d%s", jobs[i].fam, string(jobs[i].opts), jobs[i].prof.name, jobs[i].maxL, jobs[i].tag), f) {
				js, ps = append(js, jobs[i]), append(ps, pars[i])
			}
		}
		jobs, pars = js, ps
		c.NotExhaustive("VERIF_C09_ONLY=" + f)
	}
	parOf := map[*job]c09Params{}
	for i := range jobs {
		parOf[&jobs[i]] = pars[i]
	}

	var expired sync.Once
	c.runJobs(jobs, func(jc *jobCase) (n, nt int64, bad *Violation) {
		par := parOf[jc.j]
		p, err := c09Compile(jc.src, jc.j.opts, par)
		if err != nil {
			if jc.p.AST == nil || jc.j.opts.has('E') {
				return 0, 0, nil // text pattern not valid under these options
			}
			return 0, 0, &Violation{Leg: "compile", Detail: "enumerated pattern does not compile: " + err.Error()}
		}
		st := &c09Stats{outcomes: map[string]int64{}}
		menu := menus[par.maxTok]
		if par.lits {
			menu = litMenu
		}
		reps := p.c09Reps(menu, ntok, st)
		var cur c09Where
		for _, in := range jc.inputs {
			if c.Expired() {
				expired.Do(func() { c.NotExhaustive("internal deadline reached inside a pattern of " + jc.j.fam) })
				break
			}
			s := jc.j.prof.encode(in)
			func() {
				defer func() {
					if r := recover(); r != nil {
						bad = p.vio("panic", s, cur, "%s", panicText(r))
					}
				}()
				if par.order {
					bad = p.c09CacheOrder(s, reps, st, &cur, nil)
				} else {
					bad = p.c09CheckInput(s, reps, st, &cur, nil)
				}
			}()
			if bad != nil {
				break
			}
		}
		for k, v := range st.outcomes {
			c.Outcome(k, v)
		}
		if st.count0 != nil {
			v := *st.count0
			v.Pattern, v.Options, v.Key = jc.src, string(jc.j.opts), "replace-count0|*"
			c.Report(v)
		}
		return st.evals, st.nontrivial, bad
	})
	c.extra["states"] = c.evals.Load()
	c.extra["transitions"] = c.evals.Load()
	c.extra["traces_validated_against_impl"] = c.evals.Load()
}

func replayC09(v Violation) (bool, string) {
	num := func(k string, def int) int {
		if f, ok := v.Extra[k].(float64); ok {
			return int(f)
		}
		return def
	}
	par := c09Params{cache: num("cache", c09CacheDefault), splitToo: true, funcTok: 99}
	p, err := c09Compile(v.Pattern, optSet(v.Options), par)
	if err != nil {
		return false, "compile error: " + err.Error()
	}
	b64, _ := v.Extra["input_b64"].(string)
	raw, err := base64.StdEncoding.DecodeString(b64)
	if err != nil {
		return false, "bad input_b64"
	}
	s := string(raw)
	w := c09Where{startAt: num("startAt", -1), count: num("count", -1)}
	w.call, _ = v.Extra["call"].(string)
	w.rep, _ = v.Extra["replacement"].(string)
	if xs, ok := v.Extra["sequence"].([]any); ok {
		var seq []string
		var reps []c09Rep
		for _, x := range xs {
			r, _ := x.(string)
			seq = append(seq, r)
			if toks, ok := c09ParseRep(r, p.g); ok {
				reps = append(reps, c09Rep{text: r, toks: toks})
			}
		}
		st := &c09Stats{outcomes: map[string]int64{}}
		var cur c09Where
		if bad := p.c09CacheOrder(s, reps, st, &cur, seq); bad != nil {
			return true, bad.Leg + ": " + bad.Detail
		}
		return false, "the recorded call sequence agrees with the reference fold"
	}
	if w.call != "Replace" && w.call != "ReplaceFunc" && w.call != "Split" {
		return false, "violation of leg " + v.Leg + " is not bound to one call: " + v.Detail
	}
	st := &c09Stats{outcomes: map[string]int64{}}
	var reps []c09Rep
	if toks, ok := c09ParseRep(w.rep, p.g); ok {
		reps = []c09Rep{{text: w.rep, toks: toks, ntok: 1}}
	}
	var cur c09Where
	var bad *Violation
	func() {
		defer func() {
			if r := recover(); r != nil {
				bad = p.vio("panic", s, cur, "%s", panicText(r))
			}
		}()
		bad = p.c09CheckInput(s, reps, st, &cur, &w)
	}()
	if bad == nil && st.count0 != nil {
		bad = st.count0
	}
	if bad != nil {
		return true, bad.Leg + ": " + bad.Detail
	}
	return false, fmt.Sprintf("%s agrees with the reference fold (%d evaluations)", w.call, st.evals)
}
