// Package vtime shadows the clock functions of package time with a virtual clock owned by vsched.
package vtime

import (
	"time"

	"github.com/dlclark/regexp2/v2/verifshim/vsched"
)

type Duration = time.Duration
type Month = time.Month

const (
	Nanosecond  = time.Nanosecond
	Microsecond = time.Microsecond
	Millisecond = time.Millisecond
	Second      = time.Second
	Minute      = time.Minute
	Hour        = time.Hour
)

// Time is a virtual instant under the scheduler and wraps a real one otherwise.
type Time struct {
	ns   int64
	set  bool
	real time.Time
}

func (t Time) IsZero() bool {
	if t.set {
		return false
	}
	return t.real.IsZero()
}
func (t Time) Add(d Duration) Time {
	if t.set {
		return Time{ns: t.ns + int64(d), set: true}
	}
	return Time{real: t.real.Add(d)}
}
func (t Time) Sub(u Time) Duration {
	if t.set || u.set {
		return Duration(t.ns - u.ns)
	}
	return t.real.Sub(u.real)
}
func (t Time) Before(u Time) bool {
	if t.set || u.set {
		return t.ns < u.ns
	}
	return t.real.Before(u.real)
}
func (t Time) After(u Time) bool {
	if t.set || u.set {
		return t.ns > u.ns
	}
	return t.real.After(u.real)
}
func (t Time) Equal(u Time) bool {
	if t.set || u.set {
		return t.ns == u.ns
	}
	return t.real.Equal(u.real)
}
func (t Time) UnixNano() int64 {
	if t.set {
		return t.ns
	}
	return t.real.UnixNano()
}

// virtual time starts at a non-zero instant so that a stored Now() is never the zero Time
const epoch = int64(1) << 40

func Now() Time {
	if !vsched.Active() {
		return Time{real: time.Now()}
	}
	vsched.Yield("now")
	return Time{ns: epoch + vsched.S.Now, set: true}
}

func Since(t Time) Duration {
	if !vsched.Active() {
		return time.Since(t.real)
	}
	vsched.Yield("since")
	return Duration(epoch + vsched.S.Now - t.ns)
}

func Until(t Time) Duration { return -Since(t) }

func Sleep(d Duration) {
	if !vsched.Active() {
		time.Sleep(d)
		return
	}
	vsched.Sleep(int64(d))
}

// After / NewTimer / AfterFunc: channel based timers driven by a daemon thread.
type Timer struct {
	C    <-chan Time
	real *time.Timer
	stop bool
}

func (t *Timer) Stop() bool {
	if t.real != nil {
		return t.real.Stop()
	}
	was := !t.stop
	t.stop = true
	return was
}

func AfterFunc(d Duration, f func()) *Timer {
	if !vsched.Active() {
		return &Timer{real: time.AfterFunc(d, f)}
	}
	t := &Timer{}
	vsched.Go(func() {
		vsched.Sleep(int64(d))
		if !t.stop {
			f()
		}
	})
	return t
}
