//go:build verif

package regexp2

// This file is not part of the repository: the verification harness adds it to package regexp2
// through a build overlay (together with the sync/atomic/time shims) to reset and observe the
// process-wide state between explored executions.

import (
	"fmt"
	"sort"
	"strings"
	"time"

	"github.com/dlclark/regexp2/v2/verifshim/vsync"
)

// VerifClockState reports the timeout clock's state.
func VerifClockState() (running bool, current, clockEnd int64, started bool) {
	return fast.running, fast.current.v, fast.clockEnd.v, !fast.start.IsZero()
}

// VerifResetWorld resets the timeout clock and empties every pool (between executions).
func VerifResetWorld(period time.Duration) {
	fast = fastclock{}
	clockPeriod = period
	vsync.ResetAll()
}

// VerifStateDump renders the hidden state that could carry information from one call to the
// next: pooled runners of re (selected program, stacks, match object), the global buffer pools,
// the replacement cache order and the clock. contents=true also includes stack and buffer
// contents (over-fine, never unsound).
func (re *Regexp) VerifStateDump(contents bool) string {
	var sb strings.Builder
	var rs []string
	if re.runnerPool != nil {
		for _, it := range re.runnerPool.Items() {
			r := it.(*Runner)
			prog := "full"
			if r.code != re.code {
				prog = "quick"
			}
			s := fmt.Sprintf("runner{prog=%s text=%v track=%d/%d stack=%d/%d crawl=%d/%d", prog, r.Runtext != nil, len(r.runtrack), r.Runtrackpos, len(r.runstack), r.Runstackpos, len(r.runcrawl), r.runcrawlpos)
			if m := r.runmatch; m != nil {
				s += fmt.Sprintf(" match{bal=%v text=%v counts=%v", m.balancing, m.text != nil, m.matchcount)
				if contents {
					s += fmt.Sprintf(" matches=%v", m.matches)
				}
				s += "}"
			}
			if contents {
				s += fmt.Sprintf(" trackdata=%v stackdata=%v crawldata=%v", r.runtrack, r.runstack, r.runcrawl)
			}
			rs = append(rs, s+"}")
		}
	}
	sort.Strings(rs)
	sb.WriteString(strings.Join(rs, ";"))
	if re.replaceCache != nil {
		// list order (entry keys), and the lookup map: for every map key the position of its element in the
		// list and that element's own key (they must agree; a stale map entry is hidden state too)
		sb.WriteString(" lru[")
		pos := map[any]int{}
		i := 0
		for e := re.replaceCache.ll.Front(); e != nil; e = e.Next() {
			sb.WriteString(e.Value.(*replacerDataCacheEntry).key + ",")
			pos[e] = i
			i++
		}
		sb.WriteString("] map{")
		var ms []string
		for k, e := range re.replaceCache.cache {
			p, ok := pos[e]
			if !ok {
				p = -1
			}
			ms = append(ms, fmt.Sprintf("%s->%d:%s", k, p, e.Value.(*replacerDataCacheEntry).key))
		}
		sort.Strings(ms)
		sb.WriteString(strings.Join(ms, ",") + "}")
	}
	return sb.String()
}

// VerifGlobalPoolDump renders the global size-classed buffer pools.
func VerifGlobalPoolDump(contents bool) string {
	var sb strings.Builder
	for i := range pooledRuneBuffers.pools {
		var xs []string
		for _, it := range pooledRuneBuffers.pools[i].Items() {
			b := it.(*[]rune)
			s := fmt.Sprintf("%d/%d", len(*b), cap(*b))
			if contents {
				s += fmt.Sprintf("%v", (*b)[:cap(*b)][:min(cap(*b), 8)])
			}
			xs = append(xs, s)
		}
		sort.Strings(xs)
		fmt.Fprintf(&sb, "r%d[%s]", i, strings.Join(xs, ","))
	}
	for i := range pooledByteBuffers.pools {
		var xs []string
		for _, it := range pooledByteBuffers.pools[i].Items() {
			b := it.(*[]byte)
			xs = append(xs, fmt.Sprintf("%d/%d", len(*b), cap(*b)))
		}
		sort.Strings(xs)
		fmt.Fprintf(&sb, "b%d[%s]", i, strings.Join(xs, ","))
	}
	running, cur, end, started := VerifClockState()
	fmt.Fprintf(&sb, " clock{%v %d %d %v}", running, cur, end, started)
	return sb.String()
}
