// Package vatomic shadows sync/atomic: every operation is a scheduling point; a load may also
// cost the calling thread virtual time (Thread.LoadCost).
package vatomic

import (
	"sync/atomic"

	"github.com/dlclark/regexp2/v2/verifshim/vsched"
)

func point(op string, load bool) {
	if !vsched.Active() {
		return
	}
	if load {
		if t := vsched.Cur(); t != nil && t.LoadCost > 0 {
			vsched.Work(t.LoadCost)
			return
		}
	}
	vsched.Yield(op)
}

func LoadInt64(p *int64) int64     { point("load", true); return atomic.LoadInt64(p) }
func StoreInt64(p *int64, v int64) { point("store", false); atomic.StoreInt64(p, v) }
func AddInt64(p *int64, d int64) int64 {
	point("add", false)
	return atomic.AddInt64(p, d)
}
func SwapInt64(p *int64, v int64) int64 { point("swap", false); return atomic.SwapInt64(p, v) }
func CompareAndSwapInt64(p *int64, o, n int64) bool {
	point("cas", false)
	return atomic.CompareAndSwapInt64(p, o, n)
}
func LoadInt32(p *int32) int32     { point("load", true); return atomic.LoadInt32(p) }
func StoreInt32(p *int32, v int32) { point("store", false); atomic.StoreInt32(p, v) }
func AddInt32(p *int32, d int32) int32 {
	point("add", false)
	return atomic.AddInt32(p, d)
}
func SwapInt32(p *int32, v int32) int32 { point("swap", false); return atomic.SwapInt32(p, v) }
func CompareAndSwapInt32(p *int32, o, n int32) bool {
	point("cas", false)
	return atomic.CompareAndSwapInt32(p, o, n)
}
func LoadUint32(p *uint32) uint32     { point("load", true); return atomic.LoadUint32(p) }
func StoreUint32(p *uint32, v uint32) { point("store", false); atomic.StoreUint32(p, v) }
func LoadUint64(p *uint64) uint64     { point("load", true); return atomic.LoadUint64(p) }
func StoreUint64(p *uint64, v uint64) { point("store", false); atomic.StoreUint64(p, v) }
func AddUint64(p *uint64, d uint64) uint64 {
	point("add", false)
	return atomic.AddUint64(p, d)
}

type Int64 struct{ v int64 }

func (x *Int64) Load() int64                    { return LoadInt64(&x.v) }
func (x *Int64) Store(v int64)                  { StoreInt64(&x.v, v) }
func (x *Int64) Add(d int64) int64              { return AddInt64(&x.v, d) }
func (x *Int64) Swap(v int64) int64             { return SwapInt64(&x.v, v) }
func (x *Int64) CompareAndSwap(o, n int64) bool { return CompareAndSwapInt64(&x.v, o, n) }

type Int32 struct{ v int32 }

func (x *Int32) Load() int32                    { return LoadInt32(&x.v) }
func (x *Int32) Store(v int32)                  { StoreInt32(&x.v, v) }
func (x *Int32) Add(d int32) int32              { return AddInt32(&x.v, d) }
func (x *Int32) CompareAndSwap(o, n int32) bool { return CompareAndSwapInt32(&x.v, o, n) }

type Bool struct{ v int32 }

func (x *Bool) Load() bool { return LoadInt32(&x.v) != 0 }
func (x *Bool) Store(b bool) {
	if b {
		StoreInt32(&x.v, 1)
	} else {
		StoreInt32(&x.v, 0)
	}
}

type Value struct{ v atomic.Value }

func (x *Value) Load() any   { point("load", true); return x.v.Load() }
func (x *Value) Store(v any) { point("store", false); x.v.Store(v) }

// Pointer, Uint32, Uint64, Uintptr: the remaining typed atomics, so that a change to the library that starts using
// them still builds through the overlay and stays under the controlled scheduler.
type Pointer[T any] struct{ v atomic.Pointer[T] }

func (x *Pointer[T]) Load() *T     { point("load", true); return x.v.Load() }
func (x *Pointer[T]) Store(p *T)   { point("store", false); x.v.Store(p) }
func (x *Pointer[T]) Swap(p *T) *T { point("swap", false); return x.v.Swap(p) }
func (x *Pointer[T]) CompareAndSwap(o, n *T) bool {
	point("cas", false)
	return x.v.CompareAndSwap(o, n)
}

type Uint32 struct{ v uint32 }

func (x *Uint32) Load() uint32        { return LoadUint32(&x.v) }
func (x *Uint32) Store(v uint32)      { StoreUint32(&x.v, v) }
func (x *Uint32) Add(d uint32) uint32 { point("add", false); return atomic.AddUint32(&x.v, d) }
func (x *Uint32) CompareAndSwap(o, n uint32) bool {
	point("cas", false)
	return atomic.CompareAndSwapUint32(&x.v, o, n)
}

type Uint64 struct{ v uint64 }

func (x *Uint64) Load() uint64        { return LoadUint64(&x.v) }
func (x *Uint64) Store(v uint64)      { StoreUint64(&x.v, v) }
func (x *Uint64) Add(d uint64) uint64 { return AddUint64(&x.v, d) }
func (x *Uint64) CompareAndSwap(o, n uint64) bool {
	point("cas", false)
	return atomic.CompareAndSwapUint64(&x.v, o, n)
}
