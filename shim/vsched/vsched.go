// Package vsched is the controlled scheduler of the verification harness: exactly one managed
// goroutine runs at a time, every shim operation is a scheduling point, time is virtual.
// It is mapped into the regexp2 module as github.com/dlclark/regexp2/v2/verifshim/vsched by a
// build overlay; /repo itself does not contain it. When no scheduler is attached (S == nil)
// every shim passes straight through to the real sync / atomic / time packages.
package vsched

import (
	"fmt"
)

type state int

const (
	stRunnable state = iota
	stBlocked
	stSleeping
	stDone
)

type Thread struct {
	ID     int
	Name   string
	wake   chan struct{}
	st     state
	wakeAt int64
	// LoadCost is the virtual time charged to this thread for every atomic load it performs
	// (how "a match that runs for W" is expressed on the real interpreter).
	LoadCost int64
	// Free marks a thread whose operations cost no virtual time (every shim operation is a pure scheduling
	// point). With Sched.TimeDev set, such a thread may also be held up until the next timer event.
	Free   bool
	Daemon bool // started by the code under test (e.g. the clock goroutine)
	Aux      int  // free for the harness (e.g. interpreter step counter)
	steps    int
}

// Point is one recorded choice.
type Point struct {
	N       int  // number of alternatives
	Chosen  int  // alternative taken
	Kind    byte // 's' schedule, 'j' timer jitter, 'g' pool get, 'p' pool put
	Preempt bool // 's': taking an alternative other than 0 switches away from a runnable thread
	Op      string
}

type Sched struct {
	threads  []*Thread
	cur      *Thread
	Now      int64
	prefix   []int
	Trace    []Point
	done     chan struct{}
	Jitter   int64 // extra delay a Sleep wake-up may suffer (0 = no jitter choices)
	PoolDev  bool  // offer pool miss / drop / other-item answers
	TimeDev  bool  // offer "the running free thread is held up until the next timer event" (a deviation, kind 't')
	Steps    int
	MaxSteps int
	Aborted  bool
	Deadlock bool
	Diverged string
	// Fault is an invariant of the shimmed primitives broken by the code under test (e.g. one object put into a
	// pool twice); the harnesses report it as a violation of the execution in which it happened
	Fault string
	Log   []string
	Verbose  bool
	closed   bool
}

// S is the attached scheduler (nil = free running).
var S *Sched

func New(prefix []int) *Sched {
	return &Sched{prefix: prefix, done: make(chan struct{}), MaxSteps: 400000}
}

func Cur() *Thread {
	if S == nil {
		return nil
	}
	return S.cur
}

// Active reports whether the caller runs under the controlled scheduler.
func Active() bool { return S != nil && S.cur != nil }

// Choose consumes one explorer choice among n alternatives (0 = default).
func (s *Sched) Choose(n int, kind byte, preempt bool, op string) int {
	c := 0
	if len(s.Trace) < len(s.prefix) {
		c = s.prefix[len(s.Trace)]
		if c >= n {
			if s.Diverged == "" {
				s.Diverged = fmt.Sprintf("replay divergence: choice %d of %d at point %d (%s)", c, n, len(s.Trace), op)
			}
			c = 0
		}
	}
	s.Trace = append(s.Trace, Point{N: n, Chosen: c, Kind: kind, Preempt: preempt, Op: op})
	return c
}

func (s *Sched) enabledList() []*Thread {
	var out []*Thread
	if s.cur != nil && s.cur.st == stRunnable {
		out = append(out, s.cur)
	}
	for _, t := range s.threads {
		if t.st == stRunnable && t != s.cur {
			out = append(out, t)
		}
	}
	return out
}

func (s *Sched) finish(me *Thread) {
	s.cur = nil
	if !s.closed {
		s.closed = true
		close(s.done)
	}
	if me != nil && me.st != stDone {
		<-me.wake // parked forever; the goroutine is abandoned with this execution
	}
}

// schedule picks the next thread and transfers control; returns when the caller runs again.
func (s *Sched) schedule(op string) {
	me := s.cur
	s.Steps++
	if s.Steps > s.MaxSteps {
		s.Aborted = true
	}
	for {
		en := s.enabledList()
		if len(en) == 0 {
			var min int64 = -1
			for _, t := range s.threads {
				if t.st == stSleeping && (min < 0 || t.wakeAt < min) {
					min = t.wakeAt
				}
			}
			if min < 0 {
				for _, t := range s.threads {
					if t.st == stBlocked {
						s.Deadlock = true
					}
				}
				s.finish(me)
				return
			}
			if min > s.Now {
				s.Now = min
			}
			for _, t := range s.threads {
				if t.st == stSleeping && t.wakeAt <= s.Now {
					t.st = stRunnable
				}
			}
			continue
		}
		if s.Aborted {
			s.finish(me)
			return
		}
		if s.TimeDev && me != nil && me.st == stRunnable && me.Free {
			// deviation: the running thread is descheduled until the next sleeper is due (virtual time
			// jumps there); the woken threads then compete with it at this very point
			var min int64 = -1
			for _, t := range s.threads {
				if t.st == stSleeping && (min < 0 || t.wakeAt < min) {
					min = t.wakeAt
				}
			}
			if min >= 0 && s.Choose(2, 't', false, "hold:"+op) == 1 {
				if min > s.Now {
					s.Now = min
				}
				for _, t := range s.threads {
					if t.st == stSleeping && t.wakeAt <= s.Now {
						t.st = stRunnable
					}
				}
				en = s.enabledList()
			}
		}
		idx := 0
		if len(en) > 1 {
			preempt := me != nil && me.st == stRunnable
			idx = s.Choose(len(en), 's', preempt, op)
		}
		next := en[idx]
		if next == me {
			return
		}
		s.cur = next
		next.wake <- struct{}{}
		if me != nil && me.st != stDone {
			<-me.wake
		}
		return
	}
}

// Yield is a scheduling point for the running thread.
func Yield(op string) {
	if S == nil || S.cur == nil {
		return
	}
	S.cur.steps++
	S.schedule(op)
}

func (s *Sched) start(t *Thread, f func()) {
	s.threads = append(s.threads, t)
	go func() {
		<-t.wake
		f()
		t.st = stDone
		s.schedule("exit")
	}()
}

// Go starts a goroutine of the code under test under the scheduler.
func Go(f func()) {
	if S == nil || S.cur == nil {
		go f()
		return
	}
	s := S
	t := &Thread{ID: len(s.threads), Name: "daemon", wake: make(chan struct{}), st: stRunnable, Daemon: true}
	s.start(t, f)
	Yield("go")
}

// Spawn registers a client thread before Run.
func (s *Sched) Spawn(name string, loadCost int64, f func()) *Thread {
	t := &Thread{ID: len(s.threads), Name: name, wake: make(chan struct{}), st: stRunnable, LoadCost: loadCost}
	s.start(t, f)
	return t
}

// Run executes until no thread can run any more (all done, deadlock, or step horizon).
func (s *Sched) Run() {
	S = s
	s.cur = nil
	s.schedule("start")
	<-s.done
	S = nil
}

// DaemonsAlive reports daemon threads that have not returned.
func (s *Sched) DaemonsAlive() int {
	n := 0
	for _, t := range s.threads {
		if t.Daemon && t.st != stDone {
			n++
		}
	}
	return n
}

// Sleep blocks the caller for d of virtual time; the wake-up may be delayed by Jitter (a deviation).
func Sleep(d int64) {
	s := S
	t := s.cur
	extra := int64(0)
	if s.Jitter > 0 {
		if s.Choose(2, 'j', false, "sleep") == 1 {
			extra = s.Jitter
		}
	}
	if d < 0 {
		d = 0
	}
	t.wakeAt = s.Now + d + extra
	t.st = stSleeping
	s.schedule("sleep")
}

// Work advances the calling thread's clock by d without jitter (cost of computation).
func Work(d int64) {
	s := S
	t := s.cur
	t.wakeAt = s.Now + d
	t.st = stSleeping
	s.schedule("work")
}

func Block(op string) { S.cur.st = stBlocked; S.schedule(op) }
func Unblock(t *Thread) {
	if t.st == stBlocked {
		t.st = stRunnable
	}
}

func Logf(f string, a ...any) {
	if S != nil && S.Verbose {
		name := "?"
		if S.cur != nil {
			name = fmt.Sprintf("T%d", S.cur.ID)
		}
		S.Log = append(S.Log, fmt.Sprintf("[%9.3fms %s] ", float64(S.Now)/1e6, name)+fmt.Sprintf(f, a...))
	}
}
