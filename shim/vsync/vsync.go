// Package vsync shadows the parts of package sync that regexp2 uses (and their usual neighbours)
// with versions that are scheduling points of vsched. Free running (no scheduler attached) they
// delegate to the real package.
package vsync

import (
	"fmt"
	"sync"

	"github.com/dlclark/regexp2/v2/verifshim/vsched"
)

type Locker = sync.Locker

type Mutex struct {
	real    sync.Mutex
	held    bool
	waiters []*vsched.Thread
}

func (m *Mutex) Lock() {
	if !vsched.Active() {
		m.real.Lock()
		return
	}
	vsched.Yield("lock")
	for m.held {
		m.waiters = append(m.waiters, vsched.Cur())
		vsched.Block("lock-wait")
	}
	m.held = true
}

func (m *Mutex) TryLock() bool {
	if !vsched.Active() {
		return m.real.TryLock()
	}
	vsched.Yield("trylock")
	if m.held {
		return false
	}
	m.held = true
	return true
}

func (m *Mutex) Unlock() {
	if !vsched.Active() {
		m.real.Unlock()
		return
	}
	vsched.Yield("unlock")
	if !m.held {
		panic("vsync: unlock of unlocked mutex")
	}
	m.held = false
	for _, w := range m.waiters {
		vsched.Unblock(w)
	}
	m.waiters = nil
}

type RWMutex struct {
	real    sync.RWMutex
	writer  bool
	readers int
	waiters []*vsched.Thread
}

func (m *RWMutex) wakeAll() {
	for _, w := range m.waiters {
		vsched.Unblock(w)
	}
	m.waiters = nil
}

func (m *RWMutex) Lock() {
	if !vsched.Active() {
		m.real.Lock()
		return
	}
	vsched.Yield("rw-lock")
	for m.writer || m.readers > 0 {
		m.waiters = append(m.waiters, vsched.Cur())
		vsched.Block("rw-lock-wait")
	}
	m.writer = true
}

func (m *RWMutex) Unlock() {
	if !vsched.Active() {
		m.real.Unlock()
		return
	}
	vsched.Yield("rw-unlock")
	m.writer = false
	m.wakeAll()
}

func (m *RWMutex) RLock() {
	if !vsched.Active() {
		m.real.RLock()
		return
	}
	vsched.Yield("rw-rlock")
	for m.writer {
		m.waiters = append(m.waiters, vsched.Cur())
		vsched.Block("rw-rlock-wait")
	}
	m.readers++
}

func (m *RWMutex) RUnlock() {
	if !vsched.Active() {
		m.real.RUnlock()
		return
	}
	vsched.Yield("rw-runlock")
	m.readers--
	if m.readers == 0 {
		m.wakeAll()
	}
}

// Pool: under the scheduler a Get may return any pooled item or none, and a Put may drop the
// item (what the real sync.Pool does under GC / per-P caching); the non-default answers are
// offered to the explorer as deviations. Free running it is the real pool.
type Pool struct {
	New   func() any
	real  sync.Pool
	items []any
	reg   bool
}

var pools []*Pool

// ResetAll empties every pool that has been used under the scheduler (between executions).
func ResetAll() {
	for _, p := range pools {
		p.items = nil
	}
}

// Snapshot returns the pooled items of every registered pool (for state dumps).
func (p *Pool) Items() []any { return p.items }

// DropAll empties one pool (models a GC cycle).
func DropAll() {
	for _, p := range pools {
		p.items = nil
	}
}

func (p *Pool) Get() any {
	if !vsched.Active() {
		if x := p.real.Get(); x != nil {
			return x
		}
		if p.New != nil {
			return p.New()
		}
		return nil
	}
	if !p.reg {
		p.reg = true
		pools = append(pools, p)
	}
	vsched.Yield("pool-get")
	s := vsched.S
	n := len(p.items)
	if n > 0 {
		// alternative 0: most recently put item (what an uncontended pool does);
		// alternatives 1..n-1: the other items; alternative n: miss.
		k := 0
		if s.PoolDev {
			k = s.Choose(n+1, 'g', false, "pool-get")
		}
		if k < n {
			idx := n - 1 - k
			it := p.items[idx]
			p.items = append(p.items[:idx:idx], p.items[idx+1:]...)
			return it
		}
	}
	if p.New != nil {
		return p.New()
	}
	return nil
}

func (p *Pool) Put(x any) {
	if !vsched.Active() {
		p.real.Put(x)
		return
	}
	if !p.reg {
		p.reg = true
		pools = append(pools, p)
	}
	vsched.Yield("pool-put")
	if x == nil {
		return
	}
	for _, it := range p.items {
		if sameObject(it, x) {
			// a real sync.Pool would hand this object to two callers
			if vsched.S.Fault == "" {
				vsched.S.Fault = fmt.Sprintf("pool invariant: an object of type %T was put into a pool that already holds it (double Put): two later Gets can return the same object", x)
			}
			return
		}
	}
	if vsched.S.PoolDev && vsched.S.Choose(2, 'p', false, "pool-put") == 1 {
		return // dropped
	}
	p.items = append(p.items, x)
}

// sameObject compares two pooled items by identity (pooled items are pointers; anything else never matches).
func sameObject(a, b any) (same bool) {
	defer func() {
		if recover() != nil {
			same = false
		}
	}()
	return a == b
}

type Once struct {
	real sync.Once
	done bool
	m    Mutex
}

func (o *Once) Do(f func()) {
	if !vsched.Active() {
		o.real.Do(f)
		return
	}
	o.m.Lock()
	defer o.m.Unlock()
	if !o.done {
		o.done = true
		f()
	}
}

type WaitGroup struct {
	real    sync.WaitGroup
	n       int
	waiters []*vsched.Thread
}

func (w *WaitGroup) Add(d int) {
	if !vsched.Active() {
		w.real.Add(d)
		return
	}
	vsched.Yield("wg-add")
	w.n += d
	if w.n <= 0 {
		for _, t := range w.waiters {
			vsched.Unblock(t)
		}
		w.waiters = nil
	}
}
func (w *WaitGroup) Done() { w.Add(-1) }
func (w *WaitGroup) Wait() {
	if !vsched.Active() {
		w.real.Wait()
		return
	}
	vsched.Yield("wg-wait")
	for w.n > 0 {
		w.waiters = append(w.waiters, vsched.Cur())
		vsched.Block("wg-wait")
	}
}

// Rotate moves the most recently pooled item of every pool to the bottom, so the next Get
// returns another item (a deterministic stand-in for "Get returned the other pooled runner").
func Rotate() {
	for _, p := range pools {
		if n := len(p.items); n > 1 {
			last := p.items[n-1]
			copy(p.items[1:], p.items[:n-1])
			p.items[0] = last
		}
	}
}
