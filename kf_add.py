#!/usr/bin/env python3
"""kf_add.py <ID> <what-prefix>: record every replay artefact of <ID> currently in replays/ as a known finding.
Used by hand after a violation has been triaged as a genuine defect that cannot be repaired."""
import json,glob,sys
pid,what=sys.argv[1],sys.argv[2]
d=json.load(open('/verif/known_findings.json'))
have={(f['property'],f['key']) for f in d['findings']}
n=0
for f in sorted(glob.glob('/verif/replays/%s-*.json'%pid)):
    v=json.load(open(f))
    if (pid,v['key']) in have: continue
    d['findings'].append({"property":pid,"key":v['key'],"what":"%s: pattern %s options=%r input %s: %s"%(what,json.dumps(v.get('pattern','')),v.get('options',''),v.get('input',''),v['detail']),"status":"known"})
    n+=1
json.dump(d,open('/verif/known_findings.json','w'),indent=1,ensure_ascii=False)
print("added",n)
