#!/bin/bash
# usage: seedcheck.sh <seed dir with patch.diff, demo_test.go|demo/, meta.json>
# Confirms independently, in a scratch worktree, that a seeded change (1) applies and compiles with and without the
# verif tag, (2) keeps the repository's own suite green, (3) makes its demonstration fail, which passes without it.
D=$(readlink -f "$1")
export GOFLAGS=-mod=mod GOPROXY=off
WT=$(mktemp -d /var/tmp/seedchk.XXXXXX); rmdir "$WT"
cleanup() { git -C /repo worktree remove --force "$WT" 2>/dev/null; rm -rf "$WT"; git -C /repo worktree prune; }
trap cleanup EXIT
git -C /repo worktree add --detach "$WT" HEAD -q || exit 2
cd "$WT" || exit 2
demo_place() {
  if [ -f "$D/demo_test.go" ]; then
    pkg=$(grep -m1 '^package ' "$D/demo_test.go" | awk '{print $2}')
    dir=$(jq -r '.demo_dir // empty' "$D/meta.json" 2>/dev/null)
    if [ -z "$dir" ]; then case "$pkg" in syntax|syntax_test) dir=syntax;; compat|compat_test) dir=compat;; helpers) dir=helpers;; *) dir=.;; esac; fi
    cp "$D/demo_test.go" "$WT/$dir/zz_seed_demo_test.go"; DEMO_DIR=$dir
  elif [ -d "$D/demo" ]; then
    mkdir -p "$WT/zz_seed_demo" && cp -r "$D/demo/." "$WT/zz_seed_demo/"; DEMO_DIR=zz_seed_demo
  else echo "NO-DEMO"; return 1; fi
}
demo_run() {
  if [ -f "$D/demo_test.go" ]; then (cd "$WT/$DEMO_DIR" && timeout 600 go test -vet=off -count=1 -run "$(grep -o 'func Test[A-Za-z0-9_]*' "$D/demo_test.go" | sed 's/func //' | paste -sd'|')" . >"$WT/.demo.out" 2>&1)
  else (cd "$WT/$DEMO_DIR" && timeout 600 go run . >"$WT/.demo.out" 2>&1); fi
}
demo_place || exit 2
demo_run; base=$?
echo "demo without change: rc=$base (want 0)"
git apply "$D/patch.diff" || { echo "PATCH-DOES-NOT-APPLY"; exit 2; }
(go build ./... && go build -tags verif ./...) >/dev/null 2>"$WT/.b.err" || { echo "BUILD-FAILS"; head "$WT/.b.err"; exit 3; }
demo_run; mut=$?
echo "demo with change:    rc=$mut (want != 0)"; tail -3 "$WT/.demo.out" | cut -c1-300
rm -rf "$WT/zz_seed_demo" "$WT"/*/zz_seed_demo_test.go "$WT/zz_seed_demo_test.go"
suite=$(timeout 1500 go test -json -vet=off -count=1 -timeout 25m ./... 2>&1)
pass=$(printf '%s\n' "$suite" | grep -c '"Action":"pass".*"Test":'); fail=$(printf '%s\n' "$suite" | grep -c '"Action":"fail"')
echo "suite with change: pass=$pass fail=$fail (want >=1515, 0)"
[ "$base" -eq 0 ] && [ "$mut" -ne 0 ] && [ "$fail" -eq 0 ] && [ "$pass" -ge 1515 ] && echo "SEED-OK" || echo "SEED-REJECTED"
