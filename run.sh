#!/bin/bash
# usage: run.sh <ID> <quick|thorough>   |   run.sh replay <replays/ID-k.json>
# Rebuilds the harness against the repository's current working tree (tag verif) and runs one check.
#   VERIF_REPO  repository to build against (default /repo; a scratch worktree when a seeded change is tried)
#   VERIF_OUT   where bin/, evidence/ and replays/ go (default /verif; a scratch dir for seeded runs)
set -u
ID="$1"; TIER="${2:-quick}"
MODE=check
if [ "$ID" = "replay" ]; then
  # run.sh replay <artefact.json>: rebuild the binary of the artefact's property and re-execute the recorded case
  MODE=replay; ARTEFACT="$2"; TIER=quick
  ID=$(jq -r .property "$ARTEFACT") || exit 2
fi
export GOFLAGS=-mod=mod GOPROXY=off GOTOOLCHAIN=${GOTOOLCHAIN:-auto}
export GOCACHE=${GOCACHE:-/verif/.cache/go-build}
REPO=${VERIF_REPO:-/repo}
OUT=${VERIF_OUT:-/verif}
export VERIF_REPO="$REPO" VERIF_OUT="$OUT"
cd /verif/harness || exit 2
mkdir -p "$OUT/bin" "$OUT/evidence" "$OUT/replays"
BIN="$OUT/bin/rxv-$ID"
TAGS=verif
OVERLAY=""
MODFILE=""
SCRATCH=$(mktemp -d /var/tmp/rxv-build.XXXXXX)
trap 'rm -rf "$SCRATCH"' EXIT
if [ "$REPO" != "/repo" ]; then
  # same harness sources, module file pointing at the other tree
  sed "s#=> /repo#=> $REPO#" go.mod > "$SCRATCH/go.mod"
  [ -f go.sum ] && cp go.sum "$SCRATCH/go.sum"
  MODFILE="-modfile=$SCRATCH/go.mod"
fi
case "$ID" in
  C11|C12|C14)
    # schedule exploration: build the repository through an overlay that routes sync / atomic / time through the shims
    TAGS="verif sched"
    (cd /verif/mkoverlay && go build -o "$OUT/bin/mkoverlay" . ) || { echo "mkoverlay build failed" >&2; exit 2; }
    "$OUT/bin/mkoverlay" "$REPO" /verif/shim "$SCRATCH" >/dev/null || { echo "overlay generation failed" >&2; exit 2; }
    OVERLAY="-overlay $SCRATCH/overlay.json"
    ;;
esac
build() { go build $MODFILE -tags "$TAGS" $OVERLAY -o "$BIN" . ; }
if ! build 2>"$OUT/bin/build-$ID.err"; then
  # fall back to the newer local toolchain if the automatic switch is unavailable
  if ! GOTOOLCHAIN=local go1.26 build $MODFILE -tags "$TAGS" $OVERLAY -o "$BIN" . 2>>"$OUT/bin/build-$ID.err"; then
    cat "$OUT/bin/build-$ID.err" >&2
    echo "harness build failed against $REPO working tree" >&2
    exit 2
  fi
fi
if [ -n "${VERIF_BUILD_ONLY:-}" ]; then echo "$BIN"; exit 0; fi
if [ "$MODE" = "replay" ]; then
  "$BIN" replay "$ARTEFACT"
  exit $?
fi
if [ "$ID" = "C11" ]; then
  # auxiliary leg: the same scenario bodies free-running under the race detector
  if go build $MODFILE -race -tags "$TAGS" $OVERLAY -o "$OUT/bin/rxs-race" . 2>"$OUT/bin/build-race.err"; then
    export RXS_RACE_BIN="$OUT/bin/rxs-race"
  fi
fi
"$BIN" "$ID" -tier "$TIER"
exit $?
