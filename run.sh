#!/bin/bash
# usage: run.sh <ID> <quick|thorough>   — rebuilds the harness against /repo's working tree (tag verif) and runs one check
set -u
ID="$1"; TIER="${2:-quick}"
export GOFLAGS=-mod=mod GOPROXY=off GOTOOLCHAIN=${GOTOOLCHAIN:-auto}
export GOCACHE=${GOCACHE:-/verif/.cache/go-build}
cd /verif/harness || exit 2
mkdir -p /verif/bin /verif/evidence /verif/replays
BIN=/verif/bin/rxv
TAGS=verif
OVERLAY=""
case "$ID" in
  C11|C12|C14)
    # schedule exploration: build /repo through an overlay that routes sync / atomic / time through the shims
    BIN=/verif/bin/rxs
    TAGS="verif sched"
    SCRATCH=$(mktemp -d /var/tmp/rxs-overlay.XXXXXX)
    trap 'rm -rf "$SCRATCH"' EXIT
    (cd /verif/mkoverlay && go build -o /verif/bin/mkoverlay . ) || { echo "mkoverlay build failed" >&2; exit 2; }
    /verif/bin/mkoverlay /repo /verif/shim "$SCRATCH" >/dev/null || { echo "overlay generation failed" >&2; exit 2; }
    OVERLAY="-overlay $SCRATCH/overlay.json"
    ;;
esac
build() { go build -tags "$TAGS" $OVERLAY -o "$BIN" . ; }
if ! build 2>/verif/bin/build.err; then
  # fall back to the newer local toolchain if the automatic switch is unavailable
  if ! GOTOOLCHAIN=local go1.26 build -tags "$TAGS" $OVERLAY -o "$BIN" . 2>>/verif/bin/build.err; then
    cat /verif/bin/build.err >&2
    echo "harness build failed against /repo working tree" >&2
    exit 2
  fi
fi
if [ "$ID" = "C11" ]; then
  # auxiliary leg: the same scenario bodies free-running under the race detector
  if go build -race -tags "$TAGS" $OVERLAY -o /verif/bin/rxs-race . 2>/verif/bin/build-race.err; then
    export RXS_RACE_BIN=/verif/bin/rxs-race
  fi
fi
"$BIN" "$ID" -tier "$TIER"
exit $?
