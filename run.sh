#!/bin/bash
# usage: run.sh <ID> <quick|thorough>   — rebuilds the harness against /repo's working tree (tag verif) and runs one check
set -u
ID="$1"; TIER="${2:-quick}"
export GOFLAGS=-mod=mod GOPROXY=off GOTOOLCHAIN=${GOTOOLCHAIN:-auto}
export GOCACHE=${GOCACHE:-/verif/.cache/go-build}
cd /verif/harness || exit 2
mkdir -p /verif/bin /verif/evidence /verif/replays
BIN=/verif/bin/rxv
build() { go build -tags verif -o "$BIN" . ; }
if ! build 2>/verif/bin/build.err; then
  # fall back to the newer local toolchain if the automatic switch is unavailable
  if ! GOTOOLCHAIN=local go1.26 build -tags verif -o "$BIN" . 2>>/verif/bin/build.err; then
    cat /verif/bin/build.err >&2
    echo "harness build failed against /repo working tree" >&2
    exit 2
  fi
fi
exec "$BIN" "$ID" -tier "$TIER"
