#!/bin/bash
# Builds the harness once (warms the build cache); offline.
export GOFLAGS=-mod=mod GOPROXY=off
export GOCACHE=${GOCACHE:-/verif/.cache/go-build}
mkdir -p /verif/bin /verif/evidence /verif/replays
cd /verif/harness && (go build -tags verif -o /verif/bin/rxv . || GOTOOLCHAIN=local go1.26 build -tags verif -o /verif/bin/rxv .)
