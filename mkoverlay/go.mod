module mkoverlay

go 1.23
