// mkoverlay writes a `go build -overlay` file that (a) replaces every non-test file of package
// regexp2 (and of its sub-packages syntax and helpers) that uses sync, sync/atomic, the clock functions of time, or a go statement by a copy
// whose imports point at the verification shims and whose go statements go through vsched.Go,
// and (b) adds the shim packages and one extra file of package regexp2 as virtual files under
// the repository directory. /repo itself is not touched.
//
// usage: mkoverlay <repo> <shimdir> <outdir>
package main

import (
	"bytes"
	"encoding/json"
	"fmt"
	"go/ast"
	"go/format"
	"go/parser"
	"go/token"
	"os"
	"path/filepath"
	"strconv"
	"strings"
)

const shimBase = "github.com/dlclark/regexp2/v2/verifshim/"

var clockFuncs = map[string]bool{"Now": true, "Since": true, "Until": true, "Sleep": true, "After": true, "NewTimer": true, "NewTicker": true, "AfterFunc": true, "Tick": true}

func main() {
	if len(os.Args) != 4 {
		fmt.Fprintln(os.Stderr, "usage: mkoverlay <repo> <shimdir> <outdir>")
		os.Exit(2)
	}
	repo, shim, out := os.Args[1], os.Args[2], os.Args[3]
	replace := map[string]string{}
	// the root package and the packages it is built from (a change can put shared state into any of them)
	var files []string
	for _, sub := range []string{"", "syntax", "helpers"} {
		fs, _ := filepath.Glob(filepath.Join(repo, sub, "*.go"))
		files = append(files, fs...)
	}
	fset := token.NewFileSet()
	rewritten := 0
	for _, path := range files {
		base := filepath.Base(path)
		if strings.HasSuffix(base, "_test.go") || strings.HasPrefix(base, "verif_") {
			continue
		}
		f, err := parser.ParseFile(fset, path, nil, parser.ParseComments)
		if err != nil {
			fmt.Fprintln(os.Stderr, "parse:", err)
			os.Exit(1)
		}
		sub := filepath.Base(filepath.Dir(path))
		if filepath.Dir(path) == filepath.Clean(repo) {
			sub = ""
			if f.Name.Name != "regexp2" {
				continue
			}
		}
		usesClock := false
		hasGo := false
		ast.Inspect(f, func(n ast.Node) bool {
			switch x := n.(type) {
			case *ast.SelectorExpr:
				if id, ok := x.X.(*ast.Ident); ok && id.Name == "time" && clockFuncs[x.Sel.Name] {
					usesClock = true
				}
			case *ast.GoStmt:
				hasGo = true
			}
			return true
		})
		changed := false
		for _, imp := range f.Imports {
			p, _ := strconv.Unquote(imp.Path.Value)
			switch {
			case p == "sync":
				imp.Path.Value = strconv.Quote(shimBase + "vsync")
				imp.Name = ast.NewIdent("sync")
				changed = true
			case p == "sync/atomic":
				imp.Path.Value = strconv.Quote(shimBase + "vatomic")
				imp.Name = ast.NewIdent("atomic")
				changed = true
			case p == "time" && usesClock:
				imp.Path.Value = strconv.Quote(shimBase + "vtime")
				imp.Name = ast.NewIdent("time")
				changed = true
			}
		}
		if hasGo {
			rewriteGo(f)
			addImport(f, "vsched", shimBase+"vsched")
			changed = true
		}
		if !changed {
			continue
		}
		var buf bytes.Buffer
		if err := format.Node(&buf, fset, f); err != nil {
			fmt.Fprintln(os.Stderr, "print:", err)
			os.Exit(1)
		}
		dst := filepath.Join(out, base)
		if sub != "" {
			dst = filepath.Join(out, sub+"__"+base)
		}
		if err := os.WriteFile(dst, buf.Bytes(), 0o644); err != nil {
			fmt.Fprintln(os.Stderr, err)
			os.Exit(1)
		}
		replace[path] = dst
		rewritten++
	}
	for _, pkg := range []string{"vsched", "vsync", "vatomic", "vtime"} {
		srcs, _ := filepath.Glob(filepath.Join(shim, pkg, "*.go"))
		for _, s := range srcs {
			replace[filepath.Join(repo, "verifshim", pkg, filepath.Base(s))] = s
		}
	}
	extra, _ := filepath.Glob(filepath.Join(shim, "overlay_regexp2", "*.go"))
	for _, s := range extra {
		replace[filepath.Join(repo, filepath.Base(s))] = s
	}
	b, _ := json.MarshalIndent(map[string]any{"Replace": replace}, "", " ")
	if err := os.WriteFile(filepath.Join(out, "overlay.json"), b, 0o644); err != nil {
		fmt.Fprintln(os.Stderr, err)
		os.Exit(1)
	}
	fmt.Printf("overlay: %d repository files rewritten, %d entries\n", rewritten, len(replace))
}

func addImport(f *ast.File, name, path string) {
	spec := &ast.ImportSpec{Name: ast.NewIdent(name), Path: &ast.BasicLit{Kind: token.STRING, Value: strconv.Quote(path)}}
	for _, d := range f.Decls {
		if gd, ok := d.(*ast.GenDecl); ok && gd.Tok == token.IMPORT {
			gd.Specs = append(gd.Specs, spec)
			f.Imports = append(f.Imports, spec)
			return
		}
	}
	gd := &ast.GenDecl{Tok: token.IMPORT, Specs: []ast.Spec{spec}}
	f.Decls = append([]ast.Decl{gd}, f.Decls...)
	f.Imports = append(f.Imports, spec)
}

// rewriteGo turns `go f(args)` into `vsched.Go(func() { f(args) })`.
func rewriteGo(f *ast.File) {
	var visit func(list []ast.Stmt)
	visit = func(list []ast.Stmt) {
		for i, st := range list {
			if g, ok := st.(*ast.GoStmt); ok {
				fn := &ast.FuncLit{Type: &ast.FuncType{Params: &ast.FieldList{}}, Body: &ast.BlockStmt{List: []ast.Stmt{&ast.ExprStmt{X: g.Call}}}}
				list[i] = &ast.ExprStmt{X: &ast.CallExpr{Fun: &ast.SelectorExpr{X: ast.NewIdent("vsched"), Sel: ast.NewIdent("Go")}, Args: []ast.Expr{fn}}}
			}
		}
	}
	ast.Inspect(f, func(n ast.Node) bool {
		switch x := n.(type) {
		case *ast.BlockStmt:
			visit(x.List)
		case *ast.CaseClause:
			visit(x.Body)
		case *ast.CommClause:
			visit(x.Body)
		}
		return true
	})
}
