#!/usr/bin/env python3
"""Regenerates MANIFEST.json from the table below (kept next to the checks so it cannot drift)."""
import json, subprocess

hook_commits = subprocess.run(["git","-C","/repo","log","--format=%h %s","--grep=^verif hooks"],capture_output=True,text=True).stdout.strip().splitlines()

E_ENUM="E-enum: bounded-exhaustive enumeration of (pattern, options, input, offset) with a per-point oracle"
checks = {
 "C01": dict(cat="model_checking", tech="bounded-exhaustive enumeration of pattern ASTs x inputs x offsets against a reference backtracking model (every model trace compared with the implementation)",
   text="Every pattern of the listed grammars up to the size bound, under every listed option set, on every input up to the length bound and every start offset, is run through FindRunesMatchStartingAt and through an independent continuation-passing reference matcher; match, index, length and the complete capture list of every group must be equal. This decides the property inside the bounds, which is what sampling tests cannot do.",
   note="Trusted: harness/spec.go as the specification of the fragment. Bounds (size, input length, alphabets/profiles, option sets) are printed in the evidence; nothing is claimed beyond them. One recorded finding (auto-atomic loop before \\B) is excluded by shape and enumerated member by member in the NWB sub-family.", ref="4 C01"),
 "C15": dict(cat="model_checking", tech="bounded-exhaustive enumeration against the reference model run right-to-left",
   text="Same enumeration as C01 compiled with RightToLeft (alone and with i, m, s): scan positions descend from the start offset, concatenations run last-to-first, lookaheads run rightwards in the model; every point compared.",
   note="Same trusted base and bounds as C01.", ref="4 C15"),
 "C02": dict(cat="exploration", tech="bounded-exhaustive enumeration; relation between all public entry points over the FindNextMatch chain",
   text="For every enumerated pattern/option set and every byte-string input up to the bound (multi-byte, U+FFFD, invalid-byte profiles), the FindRunesMatch/FindNextMatch chain is the reference and every other entry point (bool calls, string chain, StartingAt variants at every offset, find-all index calls for n in {-1,0,1,2,3}, 19 adapter methods, Replace/ReplaceFunc/Split) must report the same matches and captures, up to the byte/rune map computed by an independent utf8 walk.",
   note="No reference model: the oracle is agreement between independent code paths of the implementation; the chain itself is validated by C01/C03/C07. Text-valued adapter methods are only checked for match count here (their bytes are C06's business).", ref="4 C02"),
 "C05": dict(cat="exploration", tech="bounded-exhaustive differential: normal compile vs compile with the listed rewrites switched off (verif hook), two legs",
   text="Every enumerated pattern is compiled twice, normally and with the six rewrites of the property switched off through the verif-only switches; on every input and start offset the naive scan of both programs must agree (meaning of the rewritten tree) and the public find call of the normal compile must agree with the un-rewritten baseline (bump-along marker). A disagreement is bisected to the single rewrite that causes it.",
   note="Trusted: the hook guards in syntax/tree.go switch off exactly the named rewrites. Other reductions are common to both compiles. One recorded finding (auto-atomic before \\B) is enumerated member by member (NWB).", ref="4 C05"),
 "C07": dict(cat="model_checking", tech="bounded-exhaustive enumeration; every FindNextMatch chain explored to its end with invariants and independent recomputation of every step",
   text="For every enumerated pattern (weighted to nullable / \\G / lookbehind shapes), both directions and every input, the whole FindNextMatch chain is explored to its end: strict progress, disjointness, no repeated empty match, at most len+1 matches; every element and the terminating nil equal an independent naive search from the previous end with \\G bound there; find-all calls equal the chain minus adjacent empties truncated to n.",
   note="Trusted: hook VerifNaiveScan(origin, scanpos). Bounds as printed.", ref="4 C07"),
 "C08": dict(cat="exploration", tech="bounded-exhaustive enumeration with structural invariants and an independent byte-offset walk on every returned match",
   text="Every match returned by the string chain, the rune chain and the StartingAt calls for every enumerated (pattern, options, byte-string input) is checked: captures inside the input, group 0 = the match, embedded capture = last capture, String()/Runes() = addressed slice, ByteRange() = offsets from an independent utf8.DecodeRuneInString walk (invalid byte = 1 rune = 1 byte), consistent with find-all and adapter byte indexes.",
   note="Bounds as printed; inputs include multi-byte runes, literal U+FFFD, 0xFF and a truncated sequence.", ref="4 C08"),
 "C04": dict(cat="exploration", tech="bounded-exhaustive enumeration; every published compile-time fact evaluated at every position where the single anchored attempt (verif hook) succeeds",
   text="For every enumerated pattern (every find mode reached; code-gen analysis on/off; both directions), every input up to the bound and every attempt position, if the compiled program matches there then each published fact (min/max length, leading/trailing anchor, prefix(es), fixed-distance literal/sets and their summaries, literal-after-loop, landmark chain, first-char set, Boyer-Moore prefix, anchor bits) must hold at that position.",
   note="Trusted: hook VerifAttemptAt. MinRequiredLength is read as 'input remaining in scan direction', the reading all consumers use.", ref="4 C04"),
 "C13": dict(cat="exploration", tech="bounded-exhaustive enumeration incl. a sweep of EVERY stack limit from 0 to 4*T0+16 relative to each pattern's own initial allocation",
   text="Breadth (five families x inputs x limits 0..72,100,1000,default) plus a STACK family built to fill the stack between two capacity checks, swept over every limit around every doubling boundary: result equals the unlimited result or ErrBacktrackingStackLimit, no panic, stack capacity <= L, success monotone in L, Regexp usable afterwards.",
   note="Trusted: hook VerifScanStats (stack capacity). Pairs whose unlimited run needs > 300000 steps are skipped and counted (time, not stack).", ref="4 C13"),
 "C14": dict(cat="model_checking", eng="E-sched", tech="stateless schedule exploration (CHESS style) of the real timeout-clock code under a controlled scheduler with virtual time; preemption-, tie- and jitter-bounded DFS over all interleavings",
   text="The real makeDeadline/extendClock/runClock/stopClock and the real interpreter's timeout checks are rebuilt through a build overlay that routes sync, sync/atomic, time and the go statement through shims; every history of up to 3 (4) operations of one client and phase-aligned pairs of concurrent clients are executed under every interleaving up to the preemption bound (and one timer-jitter deviation), with exact virtual-time oracles: a long match times out inside [d - J - 2 ticks, d + 3P + c + J + 2 ticks], a quick match never reports a timeout, the clock goroutine has exited at quiescence, no deadlock.",
   note="Sequentially consistent scheduler: scheduling points at sync/atomic/time operations only. OS latency is a bounded jitter parameter. Failing schedules are replayed twice before they are reported; harness problems (divergent replay, a 'quick' op that is not quick) never become violations.", ref="4 C14, 3.4"),
 "C16": dict(cat="model_checking", tech="bounded-exhaustive enumeration of class expressions x every rune of the domain x every lookup path, atoms vs independent definitions and compounds vs set algebra over measured atom tables",
   text="Every class of the CLASS grammar (atoms; flat unions of <= 2 items, negated or not; subtraction incl. nested; merged alternations) in 5 modes is evaluated on every rune of the domain through 8 lookup paths (CharSet.CharIn before/after ASCII bitmaps; ^C$, C+, x*C compiled with and without the bitmap option) and compared with independent atom definitions (Go unicode tables, ASCII tables) and with set algebra over the measured tables of the class's own parts.",
   note="Under IgnoreCase the domain is restricted as the property says (ASCII plus plain upper/lower pairs). Thorough sweeps all 1,112,064 scalar values for <= 2-item classes.", ref="4 C16"),
 "C17": dict(cat="model_checking", tech="bounded-exhaustive enumeration of group sequences/nestings x option sets against a reference numbering function plus consistency of every lookup",
   text="Every sequence of up to 4 (5) groups from a 10/11-item menu (unnamed, named, duplicate names, explicit sparse numbers, non-capturing, (?P<n>)), sequential and nested, under 9 option sets; each group captures its own letter, so one match reveals the slot of each group. Numbers and names must equal an independent reference numbering function where the rule is documented, and GetGroupNames/Numbers, name<->number lookups, Groups() order, GroupByName/Number, backreferences by number and name and $n/${name} must all designate the same group.",
   note="Where the documentation is silent (explicit numbers under MaintainCaptureOrder, non-JS syntax under ECMAScript) only compilation and consistency are demanded.", ref="4 C17"),
 "C19": dict(cat="exploration", tech="exhaustive enumeration of every single-rune string over all Unicode scalar values plus every string up to length 3 over a 64-rune alphabet, x option sets",
   text="For every string s of the enumerated set: Unescape(Escape(s)) == s, and \\A(?:Escape(s))\\z compiles under every option set of the menu, matches exactly s and rejects every one-rune deletion, duplication and successor replacement of s.",
   note="Strings longer than 3 runes and alphabets outside the 64-rune menu are not covered except as single runes.", ref="4 C19"),
 "C11": dict(cat="model_checking", eng="E-sched", tech="stateless schedule exploration of 2-3 goroutine scenarios on the real code under a controlled scheduler (preemption- and deviation-bounded DFS incl. every pool answer); auxiliary free-running race-detector leg",
   text="Nine scenarios built to collide (runner pool, quick/full program switch, replacement cache smaller than the replacement set, global buffer pools across two Regexps, stack-limited failure next to success, concurrent clock start/extend, balancing state next to bool-only calls) are executed under every interleaving at sync/atomic/pool/time operations and every k-th interpreter step up to the preemption bound, with every pool answer (any pooled item, miss, dropped Put) up to the deviation bound; each call must return what it returns alone on a fresh Regexp; no deadlock. The same bodies also run free under the race detector (auxiliary, not exhaustive).",
   note="Sequentially consistent scheduler; plain memory accesses between scheduling points are only seen by the race-detector leg, which is sampling and labelled exhaustive:false. An execution cap per scenario is reported when hit.", ref="4 C11, 3.4"),
 "C20": dict(cat="exploration", tech="bounded-exhaustive enumeration of case-insensitive patterns x inputs x ALL case-flip masks of pattern letters and input letters (whole orbit compared)",
   text="Every pattern of the CASE grammar (literals, classes, ranges, negation, subtraction incl. nested, backreferences, leading literal runs, category escapes) compiled with IgnoreCase (also code-gen analysis and RightToLeft), every input up to the bound, and every spelling of both obtained by flipping the case of any subset of letters must give the same outcome (found, index, length, all captures) through the rune and string entry points; ASCII, Latin-1, Greek and Cyrillic simple pairs; corpus patterns with their literal letters flipped.",
   note="Only letters whose fold orbit is a simple upper/lower pair (checked against unicode.SimpleFold at start-up). Two corpus patterns (\\p{sb=lower}) are recorded findings.", ref="4 C20"),
 "C12": dict(cat="model_checking", eng="E-bfs", tech="explicit-state breadth-first search over call histories on the real code with a canonical dump of the hidden state (pooled runners, global pools, replacement cache, clock); every transition compared with the fresh-world result",
   text="A 33-call alphabet (all entry-point kinds on six Regexps: bool-only eligible, balancing, stack-limited, sparse numbers, a twin sharing only the global pools, a timed match that times out in virtual time; inputs crossing three buffer size classes; more replacements than the cache holds; pool events gc / rotate) is explored breadth-first with states de-duplicated by a canonical dump of the hidden state; every transition runs the real call (after replaying the shortest history to its source state on a fresh world) and must return the fresh-world result. The whole alphabet is searched to depth 3 (5 thorough); per-Regexp sub-alphabets are searched to depth 9 (12), reaching a fixpoint for several of them.",
   note="State abstraction: quick omits stack / buffer contents from the key (argued safe in DESIGN 3.5), thorough includes them. Single client thread; concurrency is C11's business. Runs on the overlay build (deterministic pool shim, virtual time).", ref="4 C12, 3.5"),
 "C09": dict(cat="model_checking", tech="bounded-exhaustive enumeration of pattern x input x replacement string x startAt x count x direction against a reference model (independent $-grammar tokenizer, reference expansion, reference fold over the match chain)",
   text="For every enumerated pattern (nullable / empty-match shapes, named / numbered / sparse / duplicate-name groups, balancing groups, CORE, LOOP, corpus literals), every input up to the bound (incl. multi-byte runes, 0xFF, a truncated sequence), every replacement string of up to 2 (3) tokens of the $-grammar (valid, ambiguous and literal-$ forms), every byte startAt in [-1, len+1], count in {-1,0,1,2,3} and both directions: Replace equals the reference fold of the FindNextMatch chain; ReplaceFunc with an evaluator computing the reference expansion gives the same string; $& / $0 return the input; Split equals the gaps interleaved with the groups and its gaps re-joined with the matched texts rebuild the input; bad arguments give errors, never panics. Separate legs drive the replacement cache through hits on non-front entries at cache sizes {default,0,1,2} and check that pattern-looking replacement text stays literal.",
   note="Trusted: the reference tokenizer/expansion/fold in harness/c09.go (written from the documentation, shares no code with /repo) and the match chain itself (validated by C01/C03/C07). Split follows the conventions documented in split.go. Results are compared as decoded text where the input has invalid bytes.", ref="4 C09, 8"),
 "C18": dict(cat="exploration", tech="bounded-exhaustive enumeration of patterns x all 32 option subsets x three spellings (compile option, leading (?O), wrapping (?O:...)) x inputs x start offsets; nested on/off groups lowered to a pushed-down tree and compared with the engine on that tree and with the reference matcher",
   text="For every enumerated pattern (CORE-S, SEQ, ANCH, NAMED, corpus), every subset O of {i,m,s,n,x} and every base (none, RightToLeft, RE2, ECMAScript), the three spellings must agree on whether the pattern compiles, on group names/numbers and on match plus full capture lists on every input and start offset (with x, the same blank- and comment-decorated text is used for all three). Nested toggles (ten ims templates, five n templates, a five-letter mix, every sequence of <= 3 (4) items over atoms, blanks, comments, (?x)/(?-x) and groups) are lowered by the documented scoping rule (a switch lasts to the end of the enclosing group) to a tree in which every leaf carries its own absolute option group; the engine on the original text must equal the engine on the pushed-down text and the reference matcher run on that tree. 66 explicit lexical cases of x (blank before quantifiers, {1, 2}, classes, escapes, comments containing parentheses) are paired with their x-free equivalents.",
   note="Trusted: the lowering rule in harness/c18.go and harness/spec.go. Option groups directly inside the branches of an expression conditional are not enumerated. Bounds as printed.", ref="4 C18, 8"),
 "C03": dict(cat="exploration", tech="bounded-exhaustive differential: accelerated scan vs naive scan of the same compiled program at every start offset",
   text="For every enumerated pattern (families chosen per search mode; code-gen analysis on/off; both directions) and every input and start offset, the public rune and string entry points must return exactly what the verif-only naive scan (attempt at every position, no filter, no candidate search, no cut-off) returns for the same compiled program.",
   note="Trusted: the hook VerifNaiveScan and the interpreter itself (it is common to both sides; its meaning is C01's business). Bounds as printed in the evidence.", ref="4 C03"),
}

m = {
 "version": 1,
 "setup_cmd": "cd /verif && ./setup.sh",
 "hooks": {
   "guard": "verif",
   "enable": "go build -tags verif (run.sh builds the harness, and /repo with it, from /repo's working tree)",
   "baseline_off_cmd": "/verif/baseline_off.sh",
   "source_commits": [l.split()[0] for l in hook_commits],
   "add_only": True,
 },
 "engines": [
   {"name":"E-enum","path":"harness/","serves_properties":sorted(k for k in checks if checks[k].get("eng","E-enum")=="E-enum"),"kind_free_text":E_ENUM},
   {"name":"E-bfs","path":"harness/c12.go","serves_properties":["C12"],"kind_free_text":"explicit-state search: state = call history, canonical key = dump of hidden state taken through an overlay-only accessor; successor = replay on a fresh world + one call; BFS to a depth bound or fixpoint"},
   {"name":"E-sched","path":"harness/sched.go + shim/ + mkoverlay/","serves_properties":sorted(k for k in checks if checks[k].get("eng")=="E-sched"),"kind_free_text":"stateless schedule exploration: controlled scheduler (one runnable goroutine at a time, scheduling points at every sync/atomic/time/pool operation, virtual clock), DFS over choice sequences bounded by preemptions, tie departures and deviations (timer jitter, pool miss/drop); the code under test is /repo rebuilt through a go build -overlay that only rewrites imports"},
 ],
 "checks": [],
 "notes": "All checks: ./run.sh <ID> <tier>. Evidence in evidence/<ID>.json, replay artefacts in replays/, recorded findings in known_findings.json. See DESIGN.md.",
 "not_applicable": [],
}
for cid in sorted(checks):
    c = checks[cid]
    m["checks"].append({
      "property_id": cid,
      "quick_cmd": f"./run.sh {cid} quick",
      "thorough_cmd": f"./run.sh {cid} thorough",
      "evidence_file": f"/verif/evidence/{cid}.json",
      "replay_cmd_template": "./run.sh replay {path}",
      "engine": c.get("eng","E-enum"),
      "level_claimed": {"category": c["cat"], "text": c["text"], "design_ref": "DESIGN.md section "+c["ref"]},
      "level_note": c["note"],
      "technique": c["tech"],
    })
all_ids = [json.loads(l)["id"] for l in open("/verif/properties.jsonl")]
for pid in all_ids:
    if pid not in checks:
        m["not_applicable"].append({"property_id": pid, "reason": "check not built yet in this session (planned in DESIGN.md); nothing is claimed for it"})
json.dump(m, open("/verif/MANIFEST.json","w"), indent=1)
print("checks:", len(m["checks"]), "not_applicable:", len(m["not_applicable"]))
