#!/usr/bin/env python3
"""Regenerates MANIFEST.json from the table below (kept next to the checks so it cannot drift)."""
import json, subprocess

hook_commits = subprocess.run(["git","-C","/repo","log","--format=%h %s","--grep=^verif hooks"],capture_output=True,text=True).stdout.strip().splitlines()

E_ENUM="E-enum: bounded-exhaustive enumeration of (pattern, options, input, offset) with a per-point oracle"
checks = {
 "C01": dict(cat="model_checking", tech="bounded-exhaustive enumeration of pattern ASTs x inputs x offsets against a reference backtracking model (every model trace compared with the implementation)",
   text="Every pattern of the listed grammars up to the size bound, under every listed option set, on every input up to the length bound and every start offset, is run through FindRunesMatchStartingAt and through an independent continuation-passing reference matcher; match, index, length and the complete capture list of every group must be equal. This decides the property inside the bounds, which is what sampling tests cannot do.",
   note="Trusted: harness/spec.go as the specification of the fragment. Bounds (size, input length, alphabets/profiles, option sets) are printed in the evidence; nothing is claimed beyond them. One recorded finding (auto-atomic loop before \\B) is excluded by shape and enumerated member by member in the NWB sub-family.", ref="4 C01"),
 "C15": dict(cat="model_checking", tech="bounded-exhaustive enumeration against the reference model run right-to-left",
   text="Same enumeration as C01 compiled with RightToLeft (alone and with i, m, s): scan positions descend from the start offset, concatenations run last-to-first, lookaheads run rightwards in the model; every point compared.",
   note="Same trusted base and bounds as C01.", ref="4 C15"),
 "C02": dict(cat="exploration", tech="bounded-exhaustive enumeration; relation between all public entry points over the FindNextMatch chain",
   text="For every enumerated pattern/option set and every byte-string input up to the bound (multi-byte, U+FFFD, invalid-byte profiles), the FindRunesMatch/FindNextMatch chain is the reference and every other entry point (bool calls, string chain, StartingAt variants at every offset, find-all index calls for n in {-1,0,1,2,3}, 19 adapter methods, Replace/ReplaceFunc/Split) must report the same matches and captures, up to the byte/rune map computed by an independent utf8 walk.",
   note="No reference model: the oracle is agreement between independent code paths of the implementation; the chain itself is validated by C01/C03/C07. Text-valued adapter methods are only checked for match count here (their bytes are C06's business).", ref="4 C02"),
 "C05": dict(cat="exploration", tech="bounded-exhaustive differential: normal compile vs compile with the listed rewrites switched off (verif hook), two legs",
   text="Every enumerated pattern is compiled twice, normally and with the six rewrites of the property switched off through the verif-only switches; on every input and start offset the naive scan of both programs must agree (meaning of the rewritten tree) and the public find call of the normal compile must agree with the un-rewritten baseline (bump-along marker). A disagreement is bisected to the single rewrite that causes it.",
   note="Trusted: the hook guards in syntax/tree.go switch off exactly the named rewrites. Other reductions are common to both compiles. One recorded finding (auto-atomic before \\B) is enumerated member by member (NWB).", ref="4 C05"),
 "C07": dict(cat="model_checking", tech="bounded-exhaustive enumeration; every FindNextMatch chain explored to its end with invariants and independent recomputation of every step",
   text="For every enumerated pattern (weighted to nullable / \\G / lookbehind shapes), both directions and every input, the whole FindNextMatch chain is explored to its end: strict progress, disjointness, no repeated empty match, at most len+1 matches; every element and the terminating nil equal an independent naive search from the previous end with \\G bound there; find-all calls equal the chain minus adjacent empties truncated to n.",
   note="Trusted: hook VerifNaiveScan(origin, scanpos). Bounds as printed.", ref="4 C07"),
 "C08": dict(cat="exploration", tech="bounded-exhaustive enumeration with structural invariants and an independent byte-offset walk on every returned match",
   text="Every match returned by the string chain, the rune chain and the StartingAt calls for every enumerated (pattern, options, byte-string input) is checked: captures inside the input, group 0 = the match, embedded capture = last capture, String()/Runes() = addressed slice, ByteRange() = offsets from an independent utf8.DecodeRuneInString walk (invalid byte = 1 rune = 1 byte), consistent with find-all and adapter byte indexes.",
   note="Bounds as printed; inputs include multi-byte runes, literal U+FFFD, 0xFF and a truncated sequence.", ref="4 C08"),
 "C04": dict(cat="exploration", tech="bounded-exhaustive enumeration; every published compile-time fact evaluated at every position where the single anchored attempt (verif hook) succeeds",
   text="For every enumerated pattern (every find mode reached; code-gen analysis on/off; both directions), every input up to the bound and every attempt position, if the compiled program matches there then each published fact (min/max length, leading/trailing anchor, prefix(es), fixed-distance literal/sets and their summaries, literal-after-loop, landmark chain, first-char set, Boyer-Moore prefix, anchor bits) must hold at that position.",
   note="Trusted: hook VerifAttemptAt. MinRequiredLength is read as 'input remaining in scan direction', the reading all consumers use.", ref="4 C04"),
 "C13": dict(cat="exploration", tech="bounded-exhaustive enumeration incl. a sweep of EVERY stack limit from 0 to 4*T0+16 relative to each pattern's own initial allocation",
   text="Breadth (five families x inputs x limits 0..72,100,1000,default) plus a STACK family built to fill the stack between two capacity checks, swept over every limit around every doubling boundary: result equals the unlimited result or ErrBacktrackingStackLimit, no panic, stack capacity <= L, success monotone in L, Regexp usable afterwards.",
   note="Trusted: hook VerifScanStats (stack capacity). Pairs whose unlimited run needs > 300000 steps are skipped and counted (time, not stack).", ref="4 C13"),
 "C03": dict(cat="exploration", tech="bounded-exhaustive differential: accelerated scan vs naive scan of the same compiled program at every start offset",
   text="For every enumerated pattern (families chosen per search mode; code-gen analysis on/off; both directions) and every input and start offset, the public rune and string entry points must return exactly what the verif-only naive scan (attempt at every position, no filter, no candidate search, no cut-off) returns for the same compiled program.",
   note="Trusted: the hook VerifNaiveScan and the interpreter itself (it is common to both sides; its meaning is C01's business). Bounds as printed in the evidence.", ref="4 C03"),
}

m = {
 "version": 1,
 "setup_cmd": "cd /verif && ./setup.sh",
 "hooks": {
   "guard": "verif",
   "enable": "go build -tags verif (run.sh builds the harness, and /repo with it, from /repo's working tree)",
   "baseline_off_cmd": "/verif/baseline_off.sh",
   "source_commits": [l.split()[0] for l in hook_commits],
   "add_only": True,
 },
 "engines": [
   {"name":"E-enum","path":"harness/","serves_properties":sorted(checks.keys()),"kind_free_text":E_ENUM},
 ],
 "checks": [],
 "notes": "All checks: ./run.sh <ID> <tier>. Evidence in evidence/<ID>.json, replay artefacts in replays/, recorded findings in known_findings.json. See DESIGN.md.",
 "not_applicable": [],
}
for cid in sorted(checks):
    c = checks[cid]
    m["checks"].append({
      "property_id": cid,
      "quick_cmd": f"./run.sh {cid} quick",
      "thorough_cmd": f"./run.sh {cid} thorough",
      "evidence_file": f"/verif/evidence/{cid}.json",
      "replay_cmd_template": "./bin/rxv replay {path}",
      "engine": "E-enum",
      "level_claimed": {"category": c["cat"], "text": c["text"], "design_ref": "DESIGN.md section "+c["ref"]},
      "level_note": c["note"],
      "technique": c["tech"],
    })
all_ids = [json.loads(l)["id"] for l in open("/verif/properties.jsonl")]
for pid in all_ids:
    if pid not in checks:
        m["not_applicable"].append({"property_id": pid, "reason": "check not built yet in this session (planned in DESIGN.md); nothing is claimed for it"})
json.dump(m, open("/verif/MANIFEST.json","w"), indent=1)
print("checks:", len(m["checks"]), "not_applicable:", len(m["not_applicable"]))
