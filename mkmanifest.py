#!/usr/bin/env python3
"""Regenerates MANIFEST.json from the table below (kept next to the checks so it cannot drift)."""
import json, subprocess

hook_commits = subprocess.run(["git","-C","/repo","log","--format=%h %s","--grep=^verif hooks"],capture_output=True,text=True).stdout.strip().splitlines()

E_ENUM="E-enum: bounded-exhaustive enumeration of (pattern, options, input, offset) with a per-point oracle"
checks = {
 "C01": dict(cat="model_checking", tech="bounded-exhaustive enumeration of pattern ASTs x inputs x offsets against a reference backtracking model (every model trace compared with the implementation)",
   text="Every pattern of the listed grammars up to the size bound, under every listed option set, on every input up to the length bound and every start offset, is run through FindRunesMatchStartingAt and through an independent continuation-passing reference matcher; match, index, length and the complete capture list of every group must be equal. This decides the property inside the bounds, which is what sampling tests cannot do.",
   note="Trusted: harness/spec.go as the specification of the fragment. Bounds (size, input length, alphabets/profiles, option sets) are printed in the evidence; nothing is claimed beyond them. One recorded finding (auto-atomic loop before \\B) is excluded by shape and enumerated member by member in the NWB sub-family.", ref="4 C01"),
 "C15": dict(cat="model_checking", tech="bounded-exhaustive enumeration against the reference model run right-to-left",
   text="Same enumeration as C01 compiled with RightToLeft (alone and with i, m, s): scan positions descend from the start offset, concatenations run last-to-first, lookaheads run rightwards in the model; every point compared.",
   note="Same trusted base and bounds as C01.", ref="4 C15"),
 "C03": dict(cat="exploration", tech="bounded-exhaustive differential: accelerated scan vs naive scan of the same compiled program at every start offset",
   text="For every enumerated pattern (families chosen per search mode; code-gen analysis on/off; both directions) and every input and start offset, the public rune and string entry points must return exactly what the verif-only naive scan (attempt at every position, no filter, no candidate search, no cut-off) returns for the same compiled program.",
   note="Trusted: the hook VerifNaiveScan and the interpreter itself (it is common to both sides; its meaning is C01's business). Bounds as printed in the evidence.", ref="4 C03"),
}

m = {
 "version": 1,
 "setup_cmd": "cd /verif && ./setup.sh",
 "hooks": {
   "guard": "verif",
   "enable": "go build -tags verif (run.sh builds the harness, and /repo with it, from /repo's working tree)",
   "baseline_off_cmd": "/verif/baseline_off.sh",
   "source_commits": [l.split()[0] for l in hook_commits],
   "add_only": True,
 },
 "engines": [
   {"name":"E-enum","path":"harness/","serves_properties":sorted(checks.keys()),"kind_free_text":E_ENUM},
 ],
 "checks": [],
 "notes": "All checks: ./run.sh <ID> <tier>. Evidence in evidence/<ID>.json, replay artefacts in replays/, recorded findings in known_findings.json. See DESIGN.md.",
 "not_applicable": [],
}
for cid in sorted(checks):
    c = checks[cid]
    m["checks"].append({
      "property_id": cid,
      "quick_cmd": f"./run.sh {cid} quick",
      "thorough_cmd": f"./run.sh {cid} thorough",
      "evidence_file": f"/verif/evidence/{cid}.json",
      "replay_cmd_template": "./bin/rxv replay {path}",
      "engine": "E-enum",
      "level_claimed": {"category": c["cat"], "text": c["text"], "design_ref": "DESIGN.md section "+c["ref"]},
      "level_note": c["note"],
      "technique": c["tech"],
    })
all_ids = [json.loads(l)["id"] for l in open("/verif/properties.jsonl")]
for pid in all_ids:
    if pid not in checks:
        m["not_applicable"].append({"property_id": pid, "reason": "check not built yet in this session (planned in DESIGN.md); nothing is claimed for it"})
json.dump(m, open("/verif/MANIFEST.json","w"), indent=1)
print("checks:", len(m["checks"]), "not_applicable:", len(m["not_applicable"]))
