#!/bin/bash
# usage: seedrun.sh <patch.diff> <tier> <ID> [ID...]
# Applies a seeded change to /repo, runs the named checks, and ALWAYS restores /repo afterwards.
PATCH="$1"; TIER="$2"; shift 2
cd /repo || exit 2
if [ -n "$(git status --porcelain)" ]; then echo "/repo is not clean; refusing" >&2; exit 2; fi
git apply "$PATCH" || { echo "patch does not apply" >&2; exit 2; }
restore() { git -C /repo checkout -- . ; git -C /repo clean -fdq; }
trap restore EXIT
export GOFLAGS=-mod=mod GOPROXY=off
if ! (go build ./... && go build -tags verif ./...) 2>/tmp/seedrun.build; then echo "BUILD-FAILS"; cat /tmp/seedrun.build | head -5; exit 3; fi
for ID in "$@"; do
  out=$(cd /verif && ./run.sh "$ID" "$TIER" 2>&1); rc=$?
  v=$(printf '%s\n' "$out" | grep -c '^VIOLATION')
  echo "== $ID rc=$rc violations_printed=$v"
  printf '%s\n' "$out" | grep -A1 '^VIOLATION' | head -4
done
