#!/bin/bash
# usage: seedrun.sh <patch.diff> <tier> <ID> [ID...]
# Tries a seeded change WITHOUT touching /repo: a scratch worktree of /repo's HEAD gets the patch, the named
# checks are built against it (VERIF_REPO) and write their evidence / replays to a scratch directory (VERIF_OUT).
# The worktree and the scratch directory are removed afterwards. Prints one line per check.
PATCH=$(readlink -f "$1"); TIER="$2"; shift 2
export GOFLAGS=-mod=mod GOPROXY=off
WT=$(mktemp -d /var/tmp/seedwt.XXXXXX); OUT=$(mktemp -d /var/tmp/seedout.XXXXXX)
cleanup() { git -C /repo worktree remove --force "$WT" 2>/dev/null; rm -rf "$WT" "$OUT"; git -C /repo worktree prune; }
trap cleanup EXIT
rmdir "$WT"
git -C /repo worktree add --detach "$WT" HEAD -q || exit 2
# carry over uncommitted edits of /repo (normally none)
git -C /repo diff | (cd "$WT" && git apply --allow-empty 2>/dev/null)
(cd "$WT" && git apply "$PATCH") || { echo "patch does not apply" >&2; exit 2; }
if ! (cd "$WT" && go build ./... && go build -tags verif ./...) 2>"$OUT/build.err"; then echo "BUILD-FAILS"; head -5 "$OUT/build.err"; exit 3; fi
for ID in "$@"; do
  out=$(cd /verif && VERIF_REPO="$WT" VERIF_OUT="$OUT" ./run.sh "$ID" "$TIER" 2>&1); rc=$?
  v=$(printf '%s\n' "$out" | grep -c '^VIOLATION')
  echo "== $ID rc=$rc violations_printed=$v $(printf '%s\n' "$out" | grep -E "^$ID (quick|thorough):" | head -1)"
  printf '%s\n' "$out" | grep -A1 '^VIOLATION' | head -4
  [ "$rc" -ge 2 ] && printf '%s\n' "$out" | tail -5
done
