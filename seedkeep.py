#!/usr/bin/env python3
"""seedkeep.py <name> <src dir> : copy a confirmed seeded change into /verif/seeded/<name>/ (patch.diff, demonstration, meta.json).
meta.json keeps the seeding agent's own description and gets a 'confirmed' block filled from the seedcheck log."""
import json,sys,os,shutil,re
name,src=sys.argv[1],sys.argv[2]
dst=f"/verif/seeded/{name}"
os.makedirs(dst,exist_ok=True)
shutil.copy(f"{src}/patch.diff",f"{dst}/patch.diff")
for f in os.listdir(src):
    if f.startswith("demo") and os.path.isfile(f"{src}/{f}"): shutil.copy(f"{src}/{f}",f"{dst}/{f}")
    if f=="demo" and os.path.isdir(f"{src}/{f}"): shutil.copytree(f"{src}/{f}",f"{dst}/demo",dirs_exist_ok=True)
m=json.load(open(f"{src}/meta.json"))
log=open(f"/var/tmp/sc_{name}.log").read() if os.path.exists(f"/var/tmp/sc_{name}.log") else ""
m["confirmed"]={"by":"/verif/seedcheck.sh in a fresh scratch worktree of /repo HEAD","log":[l for l in log.splitlines() if l.startswith(("demo ","suite ","SEED-"))]}
m.setdefault("checks_run",{})
json.dump(m,open(f"{dst}/meta.json","w"),indent=1,ensure_ascii=False)
print("kept",dst)
