#!/opt/veriftools/pyvenv/bin/python
import json,jsonschema,glob,sys
jsonschema.validate(json.load(open('/verif/MANIFEST.json')),json.load(open('/root/.vp/MANIFEST.schema.json')))
es=json.load(open('/root/.vp/EVIDENCE.schema.json'))
for f in sorted(glob.glob('/verif/evidence/*.json')):
    try:
        jsonschema.validate(json.load(open(f)),es)
    except Exception as e:
        print("INVALID",f,str(e)[:300]); sys.exit(1)
print('manifest + %d evidence files valid'%len(glob.glob('/verif/evidence/*.json')))
