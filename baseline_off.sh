#!/bin/bash
# Runs the repository's own test suite with the verif guard OFF (no build tag) and prints the pass count.
export GOFLAGS=-mod=mod GOPROXY=off
cd /repo || exit 2
out=$(go test -json -vet=off -count=1 -timeout 25m ./... 2>&1)
pass=$(printf '%s\n' "$out" | grep -c '"Action":"pass".*"Test":')
fail=$(printf '%s\n' "$out" | grep -c '"Action":"fail"')
echo "baseline (guard off): pass=$pass fail=$fail"
[ "$fail" -eq 0 ] && [ "$pass" -ge 1515 ]
